"""C03 / C08, round 4: *sessions* - sequences of public calls on ONE model object with several parameter variants.

A session is a pool of parameterisations of one model source (different transition AND measurement
parameters, steady states and stds), and a list of operations

    alter_num_variants(n) / assign(per-variant values) / solve() / kalman_filter(deviation in {True, False})
    / neg_log_likelihood / simulate

The property (C03: likelihood and moments are those of the *currently solved* model; C08: smoothed paths
satisfy the equations of *their own* variant) quantifies over all solved models: the result of a filter call
must be a function of the variant's current parameters, the data, and the options - never of the calls made
before, nor of the position of the variant in the model object.

 * falsifier (`falsify_session_c03`, `falsify_session_c08`): every filter call of the session, variant by
   variant, against a freshly built single-variant model with the same parameters (confirmed against the
   dense Gaussian conditioning of kalman_common.batch_reference before it is reported), and the residuals of
   the variant's own equations on its column of the smoothed output;
 * correspondence (`session_correspondence`): the executable Coq model coq/model/KalmanSession.v (a state
   machine over a list of variants (parameters, solution, memoised forward expansions)) is run on the same
   operation sequence with symbolic parameters; it says, for every filter call and variant, *which*
   parameter vector's solution, which parameter vector's stds and which data column are handed to the
   recursion; the harness records what `predict` actually receives (patched from here) and compares it with
   what a fresh single-variant model of exactly those parameters receives.
"""
from __future__ import annotations

import contextlib
import io
import math
import re

import numpy as np

from vf import core
from vf.core import CorrResult, Disagreement, Failure
from . import kalman_common as kc

TOL = 1e-7


def session_rng(ctx, what: str):
    """The random stream of the session cases: derived from the run's seed, separate from ctx.rng so that the
    single-model cases generated from ctx.rng are the same as before the sessions were added."""
    import random
    return random.Random(f"{ctx.pid}:{ctx.seed}:sessions:{what}")


# ------------------------------------------------------------------------------------------------
# re-parameterisation of a generated model (same source text, other numbers)
# ------------------------------------------------------------------------------------------------

def _matrices(model: dict):
    k = len([n for n in model["tnames"] if re.fullmatch(r"x\d", n)])
    A1 = np.zeros((k, k)); A2 = np.zeros((k, k))
    for nm, v in model["params"].items():
        mt = re.fullmatch(r"a([12])_(\d)(\d)", nm)
        if mt:
            (A1 if mt.group(1) == "1" else A2)[int(mt.group(2)) - 1, int(mt.group(3)) - 1] = v
    return k, A1, A2


def recompute_steady(model: dict, params: dict, tr_level=None) -> tuple[dict, dict]:
    """The steady state (levels) and the steady change of every variable, in closed form from the parameters
    (the formulas of kalman_common.gen_model)."""
    tnames, tlog = model["tnames"], model["tlog"]
    lg = dict(zip(tnames, tlog))
    steady, change = {}, {}
    k = len([n for n in tnames if re.fullmatch(r"x\d", n)])
    for i in range(k):
        steady[f"x{i+1}"] = params[f"ss{i+1}"]
    src = model["source"]
    if "lx" in tnames:
        j = int(re.search(r"lx = x(\d)\{-1\};", src).group(1))
        steady["lx"] = params[f"ss{j}"]
    if "fw" in tnames:
        j = int(re.search(r"fw - phi\*ss(\d) =", src).group(1))
        steady["fw"] = params["phi"] * params[f"ss{j}"]
    if "tr" in tnames:
        steady["tr"] = model["steady"]["tr"] if tr_level is None else tr_level
        change["tr"] = params["g"]
    if "lvl" in tnames:
        steady["lvl"] = steady["tr"]; change["lvl"] = params["g"]
    kc.measurement_steady(model, params, steady, change)
    return steady, change


def reparam(model: dict, rng) -> dict:
    """Another parameterisation of the same model source: transition coefficients, steady-state parameters,
    measurement intercepts and loadings, stds all differ; the stability margins of gen_model are kept."""
    k, A1, A2 = _matrices(model)
    lead = "b_lead" in model["params"]
    for _ in range(200):
        B1 = A1.copy(); B2 = A2.copy()
        lam = rng.uniform(0.35, 1.0)
        for M in (B1, B2):
            for i in range(k):
                for j in range(k):
                    if M[i, j] != 0:
                        v = round(M[i, j] * lam * rng.uniform(0.6, 1.1), 2)
                        M[i, j] = v if v != 0 else 0.01
        b = model["params"].get("b_lead")
        if lead:
            b = kc._r(rng, 0.1, 0.35)
            B1[0, 0] = kc._r(rng, 0.05, 0.5)
            if not kc._unique_stable_solution(B1, B2, b):
                continue
        comp = np.block([[B1, B2], [np.eye(k), np.zeros((k, k))]])
        if max(abs(np.linalg.eigvals(comp))) < 0.9:
            break
    else:
        B1, B2, b = A1, A2, model["params"].get("b_lead")
    params = dict(model["params"])
    lgx = dict(zip(model["tnames"], model["tlog"]))
    for nm in list(params):
        mt = re.fullmatch(r"a([12])_(\d)(\d)", nm)
        if mt:
            params[nm] = float((B1 if mt.group(1) == "1" else B2)[int(mt.group(2)) - 1, int(mt.group(3)) - 1])
        elif re.fullmatch(r"ss\d", nm):
            params[nm] = kc._r(rng, 0.5, 3.0) if lgx[f"x{nm[2:]}"] else kc._r(rng, -2.0, 3.0)
        elif re.fullmatch(r"c\d", nm):
            params[nm] = kc._r(rng, -1.0, 1.0)
        elif re.fullmatch(r"d\d_\d", nm):
            params[nm] = kc._r(rng, 0.3, 1.5) * (1 if params[nm] > 0 else -1)
        elif nm == "phi":
            params[nm] = kc._r(rng, 0.2, 0.9)
        elif nm == "sl":
            params[nm] = kc._r(rng, 0.05, 1.0)
        elif nm == "b_lead":
            params[nm] = b
        # g (the drift of the unit root) is kept: the data of a session are built on one steady path
    if "fw" in model["tnames"]:
        j = int(re.search(r"fw - phi\*ss(\d) =", model["source"]).group(1))
        if lgx[f"x{j}"]:
            pass
    steady, change = recompute_steady(model, params)
    new = dict(model)
    new["params"] = params
    new["steady"] = steady
    new["change"] = change
    new["stds"] = {nm: kc._r(rng, 0.2, 1.5) for nm in model["stds"]}
    return new


# ------------------------------------------------------------------------------------------------
# generator of sessions
# ------------------------------------------------------------------------------------------------

def gen_session(rng, max_periods=8) -> dict:
    """A case of kalman_common.gen_case (model, data, mask, options) + a pool of parameterisations + an operation
    sequence.  Operations (JSON-able):
        ["alter", n]                          alter_num_variants(n)
        ["assign", [i_0, .., i_{nv-1}]]       assign the parameters, steady state and stds of pool[i_v] to variant v
        ["assign_stds", [i_0, ..]]            assign the stds of pool[i_v] only (no new solve is needed)
        ["solve"]
        ["filter", deviation]                 kalman_filter(...): CHECKED
        ["nll", deviation]                    neg_log_likelihood(...): CHECKED (first variant only: the method returns ...)
        ["simulate", deviation]               a simulation with anticipated shocks (fills the expansion caches)
    The generator keeps every variant solved for its current structural parameters at each checked call."""
    while True:
        case = kc.gen_case(rng, max_periods=max_periods)
        if case["nper"] >= 2:
            break
    model = case["model"]
    npool = rng.choice([2, 3, 3, 4])
    pool = [model] + [reparam(model, rng) for _ in range(npool - 1)]
    ops = []
    nv = 1
    nops = rng.randint(3, 7)
    first_dev = case["deviation"]
    nfilter = 0
    # start: possibly several variants straight away
    if rng.random() < 0.6:
        nv = rng.choice([2, 2, 3])
        ops.append(["alter", nv])
        ops.append(["assign", [rng.randrange(npool) for _ in range(nv)]])
        ops.append(["solve"])
    for _ in range(nops):
        q = rng.random()
        if q < 0.40:
            ops.append(["filter", bool(first_dev if rng.random() < 0.7 else not first_dev)]); nfilter += 1
        elif q < 0.60:
            ops.append(["assign", [rng.randrange(npool) for _ in range(nv)]])
            ops.append(["solve"])
        elif q < 0.70:
            ops.append(["assign_stds", [rng.randrange(npool) for _ in range(nv)]])
        elif q < 0.82:
            nv = rng.choice([1, 2, 2, 3])
            ops.append(["alter", nv])
            if rng.random() < 0.7:
                ops.append(["assign", [rng.randrange(npool) for _ in range(nv)]])
                ops.append(["solve"])
        elif q < 0.92:
            ops.append(["simulate", bool(rng.random() < 0.5)])
        else:
            # (neg_log_likelihood raises TypeError on a model with several variants: single-variant states only)
            ops.append(["nll" if nv == 1 else "filter", bool(first_dev)]); nfilter += 1
    if not ops or ops[-1][0] not in ("filter", "nll"):
        ops.append(["filter", bool(first_dev)])
    case = dict(case)
    case["pre_calls"] = []
    case["pool"] = pool
    case["ops"] = ops
    # per-variant data columns: column v of the observations is shifted by shift[v] (equation space); variants
    # beyond the last column read the last one
    case["data_shift"] = rng.choice([None, None, [0.0, round(rng.uniform(-0.5, 0.5), 2)],
                                     [0.0, round(rng.uniform(-0.5, 0.5), 2), round(rng.uniform(-0.5, 0.5), 2)]])
    return case


# ------------------------------------------------------------------------------------------------
# bookkeeping of the documented semantics of the operations (which pool entry each variant holds)
# ------------------------------------------------------------------------------------------------

class Book:
    """Per variant: [index of the pool entry of the structural parameters at the last solve,
                     index of the current structural parameters, index of the current stds]."""

    def __init__(self):
        self.vs = [[0, 0, 0]]

    def apply(self, op):
        kind = op[0]
        if kind == "alter":
            n = op[1]
            if n < len(self.vs):
                self.vs = self.vs[:n]
            else:
                self.vs = self.vs + [list(self.vs[-1]) for _ in range(n - len(self.vs))]
        elif kind == "assign":
            for v, i in zip(self.vs, op[1]):
                v[1] = i; v[2] = i
        elif kind == "assign_stds":
            for v, i in zip(self.vs, op[1]):
                v[2] = i
        elif kind == "solve":
            for v in self.vs:
                v[0] = v[1]


def variant_model(case: dict, solved: int, now: int, stds: int) -> dict:
    """The model dict of a variant: structural parameters / steady state of pool[now], stds of pool[stds]."""
    mdl = dict(case["pool"][now])
    mdl["stds"] = dict(case["pool"][stds]["stds"])
    return mdl


# ------------------------------------------------------------------------------------------------
# implementation side
# ------------------------------------------------------------------------------------------------

def _assign_values(case: dict, idxs, stds_only=False) -> dict:
    """name -> list of per-variant values (levels; (level, change) pairs for variables with a steady change)."""
    model = case["model"]
    lg = dict(zip(model["tnames"] + model["mnames"], model["tlog"] + model["mlog"]))
    out: dict = {}
    for i in idxs:
        p = case["pool"][i]
        vals = dict(p["stds"])
        if not stds_only:
            vals.update(p["params"])
            change = p.get("change", {})
            for nm, v in p["steady"].items():
                vals[nm] = (v, math.exp(change[nm]) if lg[nm] else change[nm]) if nm in change else v
        for nm, v in vals.items():
            out.setdefault(nm, []).append(v)
    return out


def apply_op(m, case: dict, op, dbs, span):
    """Apply a state-changing or auxiliary operation to the model object; returns None."""
    import irispie as ir
    kind = op[0]
    model = case["model"]
    if kind == "alter":
        m.alter_num_variants(op[1])
    elif kind in ("assign", "assign_stds"):
        vals = _assign_values(case, op[1], stds_only=(kind == "assign_stds"))
        tuples = {nm: v for nm, v in vals.items() if any(isinstance(x, tuple) for x in v)}
        plain = {nm: v for nm, v in vals.items() if nm not in tuples}
        m.assign(**plain)
        for nm, v in tuples.items():                     # (level, change) pairs: variant by variant
            for vid, x in enumerate(v):
                mv = m.get_variant(vid) if m.num_variants > 1 else m
                mv.assign(**{nm: x})
    elif kind == "solve":
        m.solve()
    elif kind == "simulate":
        dev = op[1]
        lag = model["max_lag"]
        pre_db = ir.Databox.steady(m, (span.start - lag) >> span.end, deviation=dev)
        vals = np.zeros(case["nper"]); vals[-1] = 0.7; vals[case["nper"] // 2] = -0.4
        for nm in model["shocks"]:
            pre_db["ant_" + nm] = ir.Series(periods=span, values=vals.copy())
        m.simulate(pre_db, span, deviation=dev)
    else:
        raise ValueError(kind)


def session_databox(m_ref, case: dict, dev: bool, nv: int):
    """The input databox of a filter call in mode `dev`: the case's observations around the steady path of the
    reference model (pool[0]); with data_shift, one column per variant."""
    import irispie as ir
    c = dict(case); c["deviation"] = dev
    db, span = kc.input_databox(m_ref, c)
    shift = case.get("data_shift")
    if shift:
        model = case["model"]
        for j, nm in enumerate(model["mnames"]):
            col = kc._arr(db[nm], span)
            wide_span = db[nm].span if hasattr(db[nm], "span") else span
            cols = []
            for s in shift:
                cols.append(col * math.exp(s) if (model["mlog"][j]) else col + s)
            db[nm] = ir.Series(num_variants=len(shift), periods=span, values=np.column_stack(cols))
    return strip_stds(db, case), span


def column_case(case: dict, v: int) -> dict:
    """The single-variant case whose data are column v of the session's data."""
    shift = case.get("data_shift")
    c = dict(case)
    c.pop("pool", None); c.pop("ops", None); c.pop("data_shift", None)
    if shift:
        s = shift[min(v, len(shift) - 1)]
        c["data"] = [[x + s for x in col] for col in case["data"]]
        c["pad"] = [0, 0]
    return c


class _Col:
    """Column v of a multi-variant Series, with the get_data interface the helpers of kalman_common use."""

    def __init__(self, series, v):
        self.series, self.v = series, v

    def get_data(self, span):
        a = np.asarray(self.series.get_data(span), dtype=float)
        if a.ndim == 1:
            return a
        return a[:, min(self.v, a.shape[1] - 1)]

    def copy(self):
        return self


class _ColBox:
    def __init__(self, box, v):
        self.box, self.v = box, v

    def __getitem__(self, nm):
        return _Col(self.box[nm], self.v)

    def keys(self):
        return self.box.keys()


def _info_list(info):
    return info if isinstance(info, list) else [info]


def _fresh(case: dict, cache: dict, solved: int, now: int, stds: int):
    """A freshly built single-variant model: parameters of pool[solved] assigned and solved; when the variant's
    current parameters differ (assign without solve), they are assigned afterwards without a new solve."""
    key = (solved, now, stds)
    if key not in cache:
        m = build(case, solved)
        if now != solved:
            apply_op(m, case, ["assign", [now]], None, None)
        if stds != now:
            apply_op(m, case, ["assign_stds", [stds]], None, None)
        cache[key] = m
    return cache[key]


def build(case: dict, idx: int):
    """A new single-variant model object with the parameters, steady state and stds of pool[idx], solved (the same
    sequence of public calls as an ["assign", [idx]], ["solve"] pair of a session)."""
    import irispie as ir
    m = ir.Simultaneous.from_string(case["model"]["source"])
    apply_op(m, case, ["assign", [idx]], None, None)
    if not m.check_steady(when_fails="silent"):
        raise RuntimeError("generated steady state does not satisfy the model (harness bug)")
    m.solve()
    return m


def strip_stds(db, case: dict):
    """Remove the std_ entries that are not supplied as data: they come from the model, variant by variant."""
    for nm in case["model"]["stds"]:
        if nm not in case["tv_stds"] and nm in db.keys():
            del db[nm]
    return db


def run_session(case: dict, on_filter) -> None:
    """Run the operations on one model object; on_filter(op_index, op, model_object, book, out, info, db, span)
    is called after every checked call."""
    m_ref = build(case, 0)
    m = build(case, 0)
    book = Book()
    span = None
    for k, op in enumerate(case["ops"]):
        if op[0] in ("filter", "nll"):
            dev = bool(op[1])
            db, span = session_databox(m_ref, case, dev, m.num_variants)
            c = dict(case); c["deviation"] = dev
            opts = kc.kf_options(c)
            if op[0] == "filter":
                out, info = m.kalman_filter(db, span, return_info=True, unpack_singleton=False, **opts)
                on_filter(k, op, m, book, out, _info_list(info), db, span)
            else:
                v = m.neg_log_likelihood(db, span, **opts)
                on_filter(k, op, m, book, None, v, db, span)
        else:
            if span is None:
                _, span = session_databox(m_ref, case, False, 1)
            apply_op(m, case, op, None, span)
            book.apply(op)


def call_shape(case: dict, k: int) -> str:
    """Stable name of the shape of the k-th call of a session: mode, number of variants, and what happened before."""
    ops = case["ops"]
    op = ops[k]
    book = Book()
    for o in ops[:k]:
        if o[0] not in ("filter", "nll", "simulate"):
            book.apply(o)
    nv = len(book.vs)
    before = [o[0] for o in ops[:k]]
    resolved = False            # a checked call in the same mode, then a new solve, before this call
    seen_same = False
    for o in ops[:k]:
        if o[0] in ("filter", "nll") and bool(o[1]) == bool(op[1]):
            seen_same = True
        if o[0] == "solve" and seen_same:
            resolved = True
    parts = [op[0], "deviation" if op[1] else "level", "multi-variant" if nv > 1 else "single-variant"]
    if resolved:
        parts.append("after-resolve")
    elif "simulate" in before or any(b in ("filter", "nll") for b in before):
        parts.append("after-calls")
    return ":".join(parts)


# ------------------------------------------------------------------------------------------------
# falsifiers
# ------------------------------------------------------------------------------------------------

def _fresh_filter(case, cache, fcache, key3, v, dev):
    fk = (key3, dev, v if case.get("data_shift") else 0)
    if fk not in fcache:
        mf = _fresh(case, cache, *key3)
        cv = column_case(case, v); cv["deviation"] = dev
        cv["model"] = variant_model(case, *key3)
        if "ref" not in cache:
            cache["ref"] = build(case, 0)
        db, span = kc.input_databox(cache["ref"], cv)
        strip_stds(db, case)
        out, info = mf.kalman_filter(db, span, return_info=True, **kc.kf_options(cv))
        fcache[fk] = (mf, cv, db, span, out, info)
    return fcache[fk]


def falsify_session_c03(case: dict, tol=TOL) -> list[Failure]:
    """C03 on a session: every checked call, variant by variant, must return the likelihood and the moments of the
    variant's currently solved model (dense conditioning of kalman_common.batch_reference)."""
    fails: list[Failure] = []
    repro = "harness.kalman_sessions.falsify_session_c03(case)  # case = the 'input' of this record"
    cache: dict = {}; fcache: dict = {}

    def on_filter(k, op, m, book, out, infos, db, span):
        dev = bool(op[1])
        for v, (solved, now, stds) in enumerate(book.vs):
            if solved != now:
                continue                           # not solved for its current parameters: outside the property
            mf, cv, dbf, spanf, outf, infof = _fresh_filter(case, cache, fcache, (solved, now, stds), v, dev)
            if not kc.cond_ok({"out": outf, "info": infof}):
                continue
            diffs = []
            if op[0] == "nll":
                if v > 0:
                    break
                got = float(np.asarray(infos).reshape(-1)[0])
                if not kc.close(got, float(infof["neg_log_likelihood"]), tol):
                    diffs.append(("neg_log_likelihood", None, got))
            else:
                got = float(infos[v]["neg_log_likelihood"])
                if not kc.close(got, float(infof["neg_log_likelihood"]), tol):
                    diffs.append(("neg_log_likelihood", None, got))
                for boxname in ("smooth_med", "smooth_std", "update_med", "predict_std"):
                    for nm in cv["model"]["tnames"]:
                        ln = kc.log_name(cv, nm)
                        a = _Col(out[boxname][ln], v).get_data(span)
                        b = kc._arr(outf[boxname][ln], span)
                        bad = [t for t in range(len(b)) if not kc.close(float(a[t]), float(b[t]), tol)]
                        if bad:
                            diffs.append((boxname, (nm, bad[0]), float(a[bad[0]])))
                            break
            if not diffs:
                continue
            # confirm on the property itself: the dense conditioning under the variant's current model
            try:
                sol = kc.public_solution(mf)
                sol["db"], sol["span"] = dbf, spanf
                sol["v_impact"] = kc.anticipated_impact(cv, sol)
                pin = kc.period_inputs(cv, sol)
                ref = kc.batch_reference(cv, sol, pin)
            except Exception:  # noqa
                continue
            if max([ref["cond"]] + ref["conds"]) > kc.COND_MAX or not np.isfinite(ref["nll"]):
                continue
            shape = call_shape(case, k)
            for what, where, got in diffs:
                if what == "neg_log_likelihood":
                    want = ref["nll"]
                    if kc.close(got, want, 10 * tol):
                        continue
                    fails.append(Failure(f"session:{shape}:likelihood",
                                         f"call #{k} {op}: the negative log likelihood of variant {v} is not the negative "
                                         f"log density of the data under the variant's currently solved model",
                                         case, {"call": k, "variant": v, "got": got}, want, repro))
                else:
                    nm, t = where
                    kind, stat = what.split("_")
                    want = ref[what].get((nm, t))
                    if want is None:
                        continue
                    same = kc.close(got * got, want * want, 10 * tol) if stat == "std" else kc.close(got, want, 10 * tol)
                    if same:
                        continue
                    fails.append(Failure(f"session:{shape}:{what}",
                                         f"call #{k} {op}: {what}[{nm}] of variant {v} is not the conditional "
                                         f"{'mean' if stat == 'med' else 'standard deviation'} under the variant's "
                                         f"currently solved model", case,
                                         {"call": k, "variant": v, "name": nm, "t": t, "got": got}, want, repro))
    try:
        run_session(case, on_filter)
    except Exception as e:  # noqa
        if isinstance(e, np.linalg.LinAlgError):
            return fails
        fails.append(Failure("session:raises", f"a session of public calls raises {type(e).__name__}: {e}", case,
                             repr(e)[:300], "results", repro))
    return _uniq(fails)


def falsify_session_c08(case: dict, tol=TOL) -> list[Failure]:
    """C08 on a session: in every filter call, column v of the smoothed output reproduces the data of variant v and
    satisfies the measurement and transition equations with the parameters of variant v; the updated output satisfies
    the measurement equations."""
    import irispie as ir
    fails: list[Failure] = []
    repro = "harness.kalman_sessions.falsify_session_c08(case)  # case = the 'input' of this record"
    cache: dict = {}; fcache: dict = {}

    def on_filter(k, op, m, book, out, infos, db, span):
        if op[0] != "filter":
            return
        dev = bool(op[1])
        shape = call_shape(case, k)
        for v, (solved, now, stds) in enumerate(book.vs):
            if solved != now:
                continue
            mf, cv, dbf, spanf, outf, infof = _fresh_filter(case, cache, fcache, (solved, now, stds), v, dev)
            if not kc.cond_ok({"out": outf, "info": infof}):
                continue
            if not (np.isfinite(float(infos[v]["neg_log_likelihood"])) and float(infos[v]["var_scale"]) > 1e-10):
                continue
            steady_db = cache.get(("steady", now))
            if steady_db is None:
                steady_db = cache[("steady", now)] = ir.Databox.steady(mf, span, deviation=False)
            for boxname in ("smooth_med", "update_med"):
                box = _ColBox(out[boxname], v)
                for j, nm in enumerate(cv["model"]["mnames"]):
                    got = box[nm].get_data(span)
                    want = kc._arr(dbf[nm], span)
                    bad = [t for t in range(cv["nper"]) if cv["mask"][j][t] and not kc.close(float(got[t]), float(want[t]), tol)]
                    if bad:
                        fails.append(Failure(f"session:{shape}:{boxname}:data-not-reproduced",
                                             f"call #{k} {op}: {boxname}[{nm}] of variant {v} differs from the observation",
                                             case, {"call": k, "variant": v, "name": nm, "t": bad[0], "got": float(got[bad[0]])},
                                             float(want[bad[0]]), repro))
                        break
                try:
                    meas, trans = kc.equation_residuals(cv, box, span, dev, steady_db)
                except Exception as e:  # noqa
                    fails.append(Failure(f"session:{boxname}:unreadable", f"{boxname} cannot be read: {type(e).__name__}: {e}", case))
                    continue
                worst = max(meas.items(), key=lambda kv: abs(kv[1]) if kv[1] == kv[1] else 1e300, default=None)
                if worst and not (abs(worst[1]) <= tol):
                    fails.append(Failure(f"session:{shape}:{boxname}:measurement-equation",
                                         f"call #{k} {op}: the measurement equation of {worst[0][0]} with the parameters of "
                                         f"variant {v} does not hold on column {v} of {boxname} in period {worst[0][1]}",
                                         case, {"call": k, "variant": v, "residual": float(worst[1])}, 0.0, repro))
                if boxname == "smooth_med":
                    worst = max(trans.items(), key=lambda kv: abs(kv[1]) if kv[1] == kv[1] else 1e300, default=None)
                    if worst and not (abs(worst[1]) <= tol):
                        fails.append(Failure(f"session:{shape}:smooth_med:transition-equation",
                                             f"call #{k} {op}: the transition equation of {worst[0][0]} with the parameters "
                                             f"of variant {v} does not hold on column {v} of smooth_med in period "
                                             f"{worst[0][1]}", case,
                                             {"call": k, "variant": v, "residual": float(worst[1])}, 0.0, repro))
    try:
        run_session(case, on_filter)
    except Exception as e:  # noqa
        if isinstance(e, np.linalg.LinAlgError):
            return fails
        fails.append(Failure("session:raises", f"a session of public calls raises {type(e).__name__}: {e}", case,
                             repr(e)[:300], "results", repro))
    return _uniq(fails)


def _uniq(fails):
    seen = set(); out = []
    for f in fails:
        if f.key not in seen:
            seen.add(f.key); out.append(f)
    return out


# ------------------------------------------------------------------------------------------------
# correspondence: the state machine coq/model/KalmanSession.v against real call sequences
# ------------------------------------------------------------------------------------------------

_SOL_FIELDS = ("Ta", "Pa", "Ka", "Za", "H", "D", "Ua")


@contextlib.contextmanager
def recording():
    """Record, without bypassing any code, (a) every call of fords.kalmans.predict: the solution matrices, initial
    condition, data arrays, std arrays and anticipated-shock impacts the recursion is handed; (b) every call of
    fords.solutions._get_solution_expansion: the memo list (identity), its length before, and `forward`."""
    import irispie.fords.kalmans as K
    import irispie.fords.solutions as SO
    rec = {"predict": [], "expand": []}
    orig_predict, orig_expand = K.predict, SO._get_solution_expansion

    def cp(a):
        return None if a is None else np.array(a, dtype=float, copy=True)

    def predict(*args, **kw):
        gs = kw["partial_generate_period_system"].keywords
        gd = kw["partial_generate_period_data"].keywords
        sol = gs["solution_v"]
        item = {f: cp(getattr(sol, f)) for f in _SOL_FIELDS}
        for i, x in enumerate(kw["initials"]):
            item[f"init{i}"] = cp(x)
        for k in ("y1_array", "std_u_array", "std_w_array"):
            item[k] = cp(gs[k])
        imp = gs["all_v_impact"]
        item["v_impact"] = None if imp is None else [cp(x) for x in imp]
        for k in ("u_array", "v_array", "w_array"):
            item[k] = cp(gd[k])
        rec["predict"].append(item)
        return orig_predict(*args, **kw)

    def expand(existing, *a):
        rec["expand"].append({"list": existing, "before": len(existing), "forward": int(a[-1])})
        return orig_expand(existing, *a)
    K.predict, SO._get_solution_expansion = predict, expand
    try:
        yield rec
    finally:
        K.predict, SO._get_solution_expansion = orig_predict, orig_expand


def _same(a, b) -> bool:
    if a is None or b is None:
        return a is None and b is None
    if isinstance(a, list) or isinstance(b, list):
        return isinstance(a, list) and isinstance(b, list) and len(a) == len(b) and all(_same(x, y) for x, y in zip(a, b))
    a = np.asarray(a, dtype=float); b = np.asarray(b, dtype=float)
    return a.shape == b.shape and bool(np.allclose(a, b, rtol=1e-12, atol=1e-13, equal_nan=True))


def forward_of_filter(case: dict):
    """`forward` of the anticipated shocks in the filter's data: index of the last period with a non-zero value;
    None when the filter does not read shocks from the data or there is no such value."""
    c = dict(case)
    if not kc.kf_options(c)["shocks_from_data"] or not case["model"]["shocks"]:
        return None
    last = None
    for col in case.get("ant", {}).values():
        for t, v in enumerate(col):
            if v:
                last = t if last is None else max(last, t)
    return last


def coq_session(idx: int, case: dict) -> str:
    """The session in the syntax of lib/KalmanSessionCase.v; values = [structural block; stds block] of pool indices;
    the data column of variant v is min(v, number of columns - 1)."""
    ncol = len(case["data_shift"]) if case.get("data_shift") else 1
    ff = forward_of_filter(case)
    fs = (case["nper"] - 1) if case["model"]["shocks"] else None

    def d(col, f):
        return f"({col}, {'None' if f is None else f'Some {f}%nat'})"
    ops = []
    for op in case["ops"]:
        k = op[0]
        if k == "alter":
            ops.append(f"OAlter _ _ {op[1]}%nat")
        elif k in ("assign", "assign_stds"):
            xs = [f"[{'None' if k == 'assign_stds' else f'Some {i}'}; Some {i}]" for i in op[1]]
            ops.append(f"OAssign _ _ [{'; '.join(xs)}] {xs[-1]}")
        elif k == "solve":
            ops.append("OSolve _ _")
        elif k in ("filter", "nll"):
            cols = [d(c, ff) for c in range(ncol)]
            ops.append(f"OFilter _ _ {kc.coq_bool(op[1])} [{'; '.join(cols)}] {cols[-1]}")
        elif k == "simulate":
            ops.append(f"OSimulate _ _ {kc.coq_bool(op[1])} [{d(0, fs)}] {d(0, fs)}")
    return f"Eval vm_compute in session [0; 0] [{'; '.join(ops)}].\n"


SESSION_HEADER = """From Coq Require Import List ZArith Bool.
From Verif Require Import model.KalmanSession lib.KalmanSessionCase.
Import ListNotations.
Open Scope Z_scope.
Set Printing Width 1000000.
Set Printing Depth 1000000.
"""


def _split(lst, sep=-1):
    out = [[]]
    for x in lst:
        if x == sep and len(out) < 3:
            out.append([])
        else:
            out[-1].append(x)
    return out


def decode_out(flat: list) -> dict | None:
    """Inverse of KalmanSessionCase.flat_O."""
    if not flat:
        return None
    mode = flat[0]
    solved, par, rest = _split(flat[1:])
    col, fwd, nexp = rest[0], rest[1], rest[2]
    ex = rest[3:]
    w = len(solved) + 3
    exps = [ex[i * w:(i + 1) * w] for i in range(nexp)]
    return {"deviation": bool(mode), "solved": solved, "par": par, "column": col, "forward": None if fwd < 0 else fwd,
            "expansions": [{"triangular": bool(e[0]), "level_solution": e[1] == 0, "solved": e[2:2 + len(solved)], "k": e[-1]}
                           for e in exps]}


def impl_session(case: dict) -> list[dict]:
    """Run the session on the implementation; per operation: the recorded inputs of predict (one per variant), the
    expansion calls (variant, basis, memo length before, forward) and the shape of every variant afterwards."""
    m_ref = build(case, 0)
    m = build(case, 0)
    span = None
    trace = []
    _, span = session_databox(m_ref, case, False, 1)
    for op in case["ops"]:
        with recording() as rec:
            if op[0] in ("filter", "nll"):
                dev = bool(op[1])
                db, span = session_databox(m_ref, case, dev, m.num_variants)
                c = dict(case); c["deviation"] = dev
                if op[0] == "filter":
                    m.kalman_filter(db, span, return_info=True, unpack_singleton=False, **kc.kf_options(c))
                else:
                    m.neg_log_likelihood(db, span, **kc.kf_options(c))
            else:
                apply_op(m, case, op, None, span)
        shapes, owner = [], {}
        for v, var in enumerate(m._variants):
            sol = var.solution
            if sol is None:
                shapes.append([0, 0, 0])
            else:
                shapes.append([1, len(sol.square_expansion), len(sol.triangular_expansion)])
                owner[id(sol.square_expansion)] = (v, False)
                owner[id(sol.triangular_expansion)] = (v, True)
        exps = []
        for e in rec["expand"]:
            v, tri = owner.get(id(e["list"]), (None, None))
            exps.append({"variant": v, "triangular": tri, "before": e["before"], "forward": e["forward"]})
        trace.append({"predict": rec["predict"], "expand": exps, "shapes": shapes})
    return trace


def reference_inputs(case: dict, cache: dict, solved: int, now: int, stds: int, col: int, dev: bool):
    """What predict is handed by a FRESH single-variant model with the given values on data column `col`."""
    key = ("ref", solved, now, stds, col, dev)
    if key not in cache:
        mf = _fresh(case, cache, solved, now, stds)
        cv = column_case(case, col); cv["deviation"] = dev
        if "refm" not in cache:
            cache["refm"] = build(case, 0)
        db, span = kc.input_databox(cache["refm"], cv)
        strip_stds(db, case)
        # an own object: the memo lists of the cached fresh model must not be filled by reference runs
        import copy as _copy
        mrun = _copy.deepcopy(mf)
        for var in mrun._variants:
            if var.solution is not None:
                var.solution.square_expansion = []; var.solution.triangular_expansion = []
        with recording() as rec:
            mrun.kalman_filter(db, span, return_info=True, **kc.kf_options(cv))
        cache[key] = rec["predict"][0]
    return cache[key]


def session_correspondence(ctx, n_sessions: int, max_periods: int, pid: str, res: CorrResult) -> None:
    """Appends to `res` (disagreements, counts) the comparison of the Coq state machine with real sessions."""
    import time as _time
    rng = session_rng(ctx, "correspondence")
    t0 = _time.time()
    cases, traces = [], []
    tries = 0
    raised = 0
    while len(cases) < n_sessions and tries < 4 * n_sessions + 10:
        tries += 1
        case = gen_session(rng, max_periods=max_periods)
        try:
            tr = impl_session(case)
        except np.linalg.LinAlgError:
            continue
        except Exception as e:  # noqa
            raised += 1
            res.disagreements.append(Disagreement("session: a public call raises", case, None, f"{type(e).__name__}: {e}"[:300]))
            continue
        cases.append(case); traces.append(tr)
    ctx.log(f"correspondence: {len(cases)} sessions run on the implementation, {_time.time() - t0:.0f}s")
    if len(cases) < max(1, n_sessions // 2):
        # fail closed: a run that cannot execute its sessions proves nothing
        res.disagreements.append(Disagreement(f"only {len(cases)} of {n_sessions} requested sessions could be run", None, None,
                                              {"raised": raised, "tries": tries}))
    nsh = max(1, min(core.NCPU, len(cases) // 8 or 1))
    shards = [list(range(i, len(cases), nsh)) for i in range(nsh)]
    texts = [SESSION_HEADER + "".join(coq_session(k, cases[i]) for k, i in enumerate(idxs)) for idxs in shards]
    results = core.run_cases(ctx, texts, prefix=f"kfs_{pid}", timeout=600)
    res.shards += len(texts)
    stats = {"sessions": len(cases), "operations": 0, "filter_calls": 0, "variant_calls_compared": 0,
             "arrays_compared": 0, "multi_variant_calls": 0, "deviation_calls": 0, "calls_after_resolve": 0,
             "expansion_calls": 0, "shapes_compared": 0, "sessions_raised": raised}
    for idxs, (ok, out) in zip(shards, results):
        if not ok:
            res.disagreements.append(Disagreement("session shard does not evaluate", None, out[-800:], None))
            continue
        bodies = core.parse_eval_lists(out)
        if len(bodies) != len(idxs):
            res.disagreements.append(Disagreement("session shard: unparsable output", None, out[-800:], None))
            continue
        for i, body in zip(idxs, bodies):
            case, tr = cases[i], traces[i]
            try:
                model_trace = kc.parse_term(body)
            except Exception as e:  # noqa
                res.disagreements.append(Disagreement("session shard: unparsable result", case, body[:400], repr(e)))
                continue
            _compare_session(case, tr, model_trace, res, stats)
    res.evaluations += len(cases)
    res.distinct_nontrivial += sum(1 for c in cases if any(o[0] == "solve" for o in c["ops"]))
    res.distribution["sessions"] = stats
    res.rule += ("; SESSIONS: a pool of 2-4 parameterisations of one model source (transition, measurement, steady-state "
                 "and std parameters all different), 4-14 public operations on one model object (alter_num_variants 1-3, "
                 "per-variant assign, assign of stds only, solve, kalman_filter in both modes, neg_log_likelihood, simulate "
                 "with anticipated shocks), optionally one data column per variant; coq/model/KalmanSession.v, run on the "
                 "same operations with symbolic values, names for every call and variant the values whose solution, the "
                 "values whose stds, the expansion matrices and the data column the recursion is handed, and the length of "
                 "both memo lists of every variant after every operation; compared with what fords.kalmans.predict / "
                 "_get_solution_expansion actually receive (recorded by patching from the harness) - the recorded arrays "
                 "must equal those of a freshly built single-variant model with exactly those values (rtol 1e-12)")


def _compare_session(case, tr, model_trace, res, stats) -> None:
    cache: dict = {}
    if len(model_trace) != len(tr):
        res.disagreements.append(Disagreement("session: number of operations the model executes", case,
                                              len(model_trace), len(tr)))
        return
    resolved_seen = False
    for k, (op, (m_out, m_shapes), it) in enumerate(zip(case["ops"], model_trace, tr)):
        stats["operations"] += 1
        where = f"session op #{k} {op}"
        if [list(s) for s in m_shapes] != it["shapes"]:
            res.disagreements.append(Disagreement(f"{where}: (solved, |square memo|, |triangular memo|) per variant", case,
                                                  m_shapes, it["shapes"]))
            return
        stats["shapes_compared"] += len(m_shapes)
        outs = [decode_out(list(o)) for o in m_out]
        # expansion calls: one per variant whose data carry anticipated shocks, on the variant's own memo list
        want_exp = []
        for v, o in enumerate(outs):
            if o is not None and o["forward"] is not None:
                want_exp.append((v, op[0] != "simulate", o["forward"]))
                # the matrices are those of the variant's own LEVEL solution, in the basis of the call, k = 0 .. forward-1
                ok = (len(o["expansions"]) == o["forward"]
                      and all(e["triangular"] == (op[0] != "simulate") and e["level_solution"] and e["solved"] == o["solved"]
                              and e["k"] == i for i, e in enumerate(o["expansions"])))
                if not ok:
                    res.disagreements.append(Disagreement(f"{where}: the model's own expansion list is not canonical", case,
                                                          o["expansions"], None))
                    return
        got_exp = [(e["variant"], e["triangular"], e["forward"]) for e in it["expand"]]
        if op[0] in ("filter", "nll", "simulate") and sorted(want_exp) != sorted(set(got_exp)):
            res.disagreements.append(Disagreement(f"{where}: expansion calls (variant, triangular basis, forward)", case,
                                                  want_exp, got_exp))
            return
        stats["expansion_calls"] += len(got_exp)
        if op[0] not in ("filter", "nll"):
            if op[0] == "solve":
                resolved_seen = True
            continue
        stats["filter_calls"] += 1
        if len(outs) != len(it["predict"]):
            res.disagreements.append(Disagreement(f"{where}: number of passes of the recursion", case, len(outs),
                                                  len(it["predict"])))
            return
        stats["multi_variant_calls"] += len(outs) > 1
        stats["deviation_calls"] += bool(op[1])
        stats["calls_after_resolve"] += "after-resolve" in call_shape(case, k)
        for v, (o, got) in enumerate(zip(outs, it["predict"])):
            if o is None:
                res.disagreements.append(Disagreement(f"{where}: variant {v} has no solution in the model", case, None, None))
                return
            s_solved, _ = o["solved"]
            s_now, s_std = o["par"]
            ref = reference_inputs(case, cache, s_solved, s_now, s_std, o["column"], o["deviation"])
            stats["variant_calls_compared"] += 1
            for name in sorted(ref):
                stats["arrays_compared"] += 1
                if not _same(ref[name], got.get(name)):
                    res.disagreements.append(Disagreement(
                        f"{where}: variant {v}: `{name}` handed to the recursion is not that of the model's choice "
                        f"(solution of pool[{s_solved}], values pool[{s_now}], stds pool[{s_std}], data column "
                        f"{o['column']}, deviation={o['deviation']})", case,
                        np.asarray(ref[name]).tolist() if not isinstance(ref[name], list) and ref[name] is not None else "see case",
                        np.asarray(got.get(name)).tolist() if got.get(name) is not None and not isinstance(got.get(name), list) else None))
                    return
