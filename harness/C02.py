"""C02  Jacobians from algorithmic differentiation equal the true derivatives."""
from __future__ import annotations

import ast
import contextlib
import io
import math
from types import SimpleNamespace

import numpy as np

from vf import core
from vf.core import CorrResult, Disagreement, Failure, coq_float, coq_z, coq_list, coq_bool
from translator import aldi as tr

ID = "C02"
PROPS = "props/C02.v"
GENERATED = [tr.OUT, tr.OUT_FD]
CASE_DEPS = ["lib/Dual.vo", "model/AldiTree.vo", "model/AldiMaps.vo", "model/AldiSelect.vo"]
CORR_WITHOUT_PROOFS = True      # the executable model does not depend on the proofs: a broken rule lemma still lets model vs code be compared
ALLOWED_AXIOMS = {
    "sig_forall_dec", "sig_not_dec", "functional_extensionality_dep", "classic",
    "ClassicalDedekindReals.sig_forall_dec", "ClassicalDedekindReals.sig_not_dec",
    "FunctionalExtensionality.functional_extensionality_dep", "Classical_Prop.classic",
}
TRUSTED = [
    "translator/aldi.py (every Atom method of aldi/differentiators.py, the dispatch table of aldi/adaptations.py, the "
    "finite-difference step rule -> gen/AldiGen.v); numpy mask assignments are read element by element",
    "Coquelicot's theory of differentiation over Coq's classical reals",
    "the elementwise independence of the components of an Atom's diff vector (numpy broadcasting), the Python operator "
    "protocol and numpy's TypeError on Atoms are hand-modelled (model/AldiTree.v) and tied by correspondence only",
    "model/AldiMaps.v (ArrayMap.static, SystemMap columns, steady and stacked-time patterns, M[lhs] = td[rhs]) is "
    "hand-modelled and tied by exact correspondence of the index lists and of the assembled matrices",
    "lib/Dual.v software exp/ln/pow on PrimFloat (only used to run the model; compared with numpy within 1e-8 relative)",
]
ASSUMPTIONS = [
    "theorems are over Coq's reals (no rounding); admissible points: denominators non-zero, log/sqrt arguments positive, "
    "power with a positive base or a non-zero base and a literal integer exponent, maximum/minimum away from the kink",
    "user functions from the model context are differentiated by a two-sided quotient: proved exact for affine functions "
    "only; other user functions are covered by the falsifier with a tolerance",
    "which tokens form the vectors of the unsolved system (SystemVectors) and the terminal-condition correction of the "
    "stacked-time Jacobian are not modelled: they are checked by the falsifier against finite differences",
]
MANIFEST = {
    "technique": "Coq/Coquelicot proof that every differentiation rule regenerated from Atom's source is the true derivative; "
                 "induction over expression trees; scatter-map placement lemmas; bit-exact/tolerance PrimFloat correspondence "
                 "through Simultaneous.systemize(), steady() and simulate(method='stacked_time')",
    "level_text": "Theorems (props/C02.v, over Coq's reals with Coquelicot's is_derive): every differentiation rule of class Atom, "
                  "regenerated from the source text on every run (neg, +, -, *, / in Atom x Atom, Atom x number and reflected forms; "
                  "power with a numeric, integer or expression exponent; log, exp, sqrt, logistic; maximum with a numeric or an "
                  "expression floor; minimum: proved unreachable or correct), returns the value and the true derivative whenever its "
                  "operands are differentiable (domain: non-zero denominators, positive log/sqrt arguments, positive base or non-zero "
                  "base with a literal integer exponent, away from the max/min kink).  By induction over ALL expression trees of the "
                  "model language and for every differentiable curve of evaluation points, the evaluator returns the residual and its "
                  "derivative along the curve, or rejects (TypeError); corollaries: partial derivative w.r.t. any token occurrence, "
                  "w.r.t. its logarithm for log-variables, w.r.t. steady (log-)level and (log-)change; 0 for tokens not occurring.  Every "
                  "name of the dispatch table is rejected on Atoms or has a proved rule.  Placement: for every list of equations, wrt "
                  "tokens and columns (NoDup wrt lists), ArrayMap.static followed by M[lhs]=td[rhs] puts the diff row of token k of "
                  "equation i into cell (i, column of the token) and leaves every other cell 0 (A, B with lagged columns, D, F, G, J, "
                  "steady Jacobian); same for the stacked-time pattern (row i+n*j, column of the shifted spot).  The two-sided quotient "
                  "used for user functions is the derivative of affine functions (_partial: only affine).  The rules for sqrt and "
                  "maximum(expr, expr) as found in the unrepaired source are proved NOT to be derivatives (frozen copies).",
    "level_note": "Trusted: Coq kernel + vm_compute; Coquelicot; translator/aldi.py (element-wise reading of numpy mask assignments); "
                  "harness; Reals axioms (sig_forall_dec, sig_not_dec, functional_extensionality_dep, classic).  Modelled and tied by "
                  "correspondence only: Python's operator protocol and numpy's TypeError on Atoms, independence of the components of "
                  "the diff vector, the assembly of the three Jacobians.  Not modelled (falsifier only): SystemVectors construction, "
                  "terminal-condition correction of the stacked-time Jacobian, non-affine user functions, float rounding.",
}

OFFERED = ["log", "exp", "sqrt", "abs", "logistic", "normal_cdf", "normal_pdf", "maximum", "minimum"]
FN1 = {"log": "FLog", "exp": "FExp", "sqrt": "FSqrt", "abs": "FAbs", "logistic": "FLogistic",
       "normal_cdf": "FNormalCdf", "normal_pdf": "FNormalPdf"}
FN2 = {"maximum": "FMaximum", "minimum": "FMinimum"}
BOP = {ast.Add: "BAdd", ast.Sub: "BSub", ast.Mult: "BMul", ast.Div: "BDiv", ast.Pow: "BPow"}
TOL = 1e-8


def translate(ctx):
    tr.run()


class HarnessError(Exception):
    pass


class Captured(Exception):
    pass


@contextlib.contextmanager
def quiet():
    with contextlib.redirect_stdout(io.StringIO()), np.errstate(all="ignore"):
        yield


# ======================================================================================
# xtring  ->  tree (nested tuples)
# ======================================================================================
# ("c", float) ("v", qid, shift) ("pos", a) ("neg", a) ("bin", op, a, b) ("f1", name, a) ("f2", name, a, b) ("f2d", name, a)

def _shift_of(node) -> int:
    if isinstance(node, ast.Name) and node.id == "t":
        return 0
    if (isinstance(node, ast.BinOp) and isinstance(node.left, ast.Name) and node.left.id == "t"
            and isinstance(node.right, ast.Constant) and isinstance(node.right.value, int)):
        if isinstance(node.op, ast.Add):
            return node.right.value
        if isinstance(node.op, ast.Sub):
            return -node.right.value
    raise HarnessError(f"unexpected time index {ast.unparse(node)}")


def tree_of_ast(n):
    if isinstance(n, ast.Expression):
        return tree_of_ast(n.body)
    if isinstance(n, ast.Constant) and isinstance(n.value, (int, float)) and not isinstance(n.value, bool):
        return ("c", float(n.value))
    if isinstance(n, ast.Subscript) and isinstance(n.value, ast.Name) and n.value.id == "x":
        idx = n.slice
        if isinstance(idx, ast.Tuple) and len(idx.elts) == 2 and isinstance(idx.elts[0], ast.Constant):
            return ("v", int(idx.elts[0].value), _shift_of(idx.elts[1]))
        raise HarnessError(f"unexpected subscript {ast.unparse(n)}")
    if isinstance(n, ast.UnaryOp):
        if isinstance(n.op, ast.USub):
            return ("neg", tree_of_ast(n.operand))
        if isinstance(n.op, ast.UAdd):
            return ("pos", tree_of_ast(n.operand))
    if isinstance(n, ast.BinOp) and type(n.op) in BOP:
        return ("bin", BOP[type(n.op)], tree_of_ast(n.left), tree_of_ast(n.right))
    if isinstance(n, ast.Call) and isinstance(n.func, ast.Name) and not n.keywords:
        f = n.func.id
        if f in FN1 and len(n.args) == 1:
            return ("f1", f, tree_of_ast(n.args[0]))
        if f in FN2 and len(n.args) == 2:
            return ("f2", f, tree_of_ast(n.args[0]), tree_of_ast(n.args[1]))
        if f in FN2 and len(n.args) == 1:
            return ("f2d", f, tree_of_ast(n.args[0]))
    raise HarnessError(f"xtring outside the modelled language: {ast.unparse(n)[:80]}")


def tree_of_xtring(xtring: str):
    return tree_of_ast(ast.parse(xtring.strip(), mode="eval"))


def tree_vars(t, acc=None):
    acc = set() if acc is None else acc
    if t[0] == "v":
        acc.add((t[1], t[2]))
    else:
        for a in t[1:]:
            if isinstance(a, tuple):
                tree_vars(a, acc)
    return acc


def tree_transcendental(t) -> bool:
    """does evaluating the tree (value or derivative) need exp/ln/pow/expit in the float model?"""
    k = t[0]
    if k in ("c", "v"):
        return False
    if k == "bin":
        if t[1] == "BPow":
            return True
        if t[1] == "BDiv" and tree_vars(t[3]):        # derivative uses other_value ** 2
            return True
        return tree_transcendental(t[2]) or tree_transcendental(t[3])
    if k == "f1":
        return t[1] != "sqrt" and t[1] != "abs" or tree_transcendental(t[2])
    return any(tree_transcendental(a) for a in t[1:] if isinstance(a, tuple))


class Inadmissible(Exception):
    pass


def num_eval(t, rho, margin=0.05, big=1e4):
    """plain float evaluation with admissibility margins (domain, kinks, magnitudes)"""
    k = t[0]
    if k == "c":
        return t[1]
    if k == "v":
        return rho[(t[1], t[2])]
    if k == "pos":
        return num_eval(t[1], rho, margin, big)
    if k == "neg":
        return -num_eval(t[1], rho, margin, big)
    if k == "bin":
        a = num_eval(t[2], rho, margin, big)
        b = num_eval(t[3], rho, margin, big)
        op = t[1]
        if op == "BAdd":
            r = a + b
        elif op == "BSub":
            r = a - b
        elif op == "BMul":
            r = a * b
        elif op == "BDiv":
            if abs(b) < margin:
                raise Inadmissible("small denominator")
            r = a / b
        else:
            const_int = (not tree_vars(t[3])) and float(b).is_integer()
            if a < margin and not (const_int and abs(a) > margin):
                raise Inadmissible("power base")
            if abs(b) > 6:
                raise Inadmissible("large exponent")
            r = a ** b
    elif k == "f1":
        a = num_eval(t[2], rho, margin, big)
        f = t[1]
        if f in ("log", "sqrt") and a < margin:
            raise Inadmissible("log/sqrt argument")
        if f == "abs" and abs(a) < margin:
            raise Inadmissible("abs kink")
        if f == "exp" and a > 8:
            raise Inadmissible("large exp")
        r = {"log": math.log, "exp": math.exp, "sqrt": math.sqrt, "abs": abs,
             "logistic": lambda v: 1 / (1 + math.exp(-v)),
             "normal_cdf": lambda v: 0.5 * (1 + math.erf(v / math.sqrt(2))),
             "normal_pdf": lambda v: math.exp(-v * v / 2) / math.sqrt(2 * math.pi)}[f](a)
    elif k == "f2":
        a = num_eval(t[2], rho, margin, big)
        b = num_eval(t[3], rho, margin, big)
        if abs(a - b) < margin:
            raise Inadmissible("kink")
        r = max(a, b) if t[1] == "maximum" else min(a, b)
    elif k == "f2d":
        a = num_eval(t[2], rho, margin, big)
        if abs(a) < margin:
            raise Inadmissible("kink")
        r = max(a, 0.0) if t[1] == "maximum" else min(a, 0.0)
    else:
        raise HarnessError(f"bad tree {t!r}")
    if not math.isfinite(r) or abs(r) > big:
        raise Inadmissible("magnitude")
    return r


def coq_tree(t) -> str:
    k = t[0]
    if k == "c":
        return f"(Kc {coq_float(t[1])})"
    if k == "v":
        return f"(Kv {coq_z(t[1])} {coq_z(t[2])})"
    if k == "pos":
        return f"(Kpos {coq_tree(t[1])})"
    if k == "neg":
        return f"(Kneg {coq_tree(t[1])})"
    if k == "bin":
        return f"(Kbin {t[1]} {coq_tree(t[2])} {coq_tree(t[3])})"
    if k == "f1":
        return f"(Kf {FN1[t[1]]} {coq_tree(t[2])})"
    if k == "f2":
        return f"(Kf2 {FN2[t[1]]} {coq_tree(t[2])} {coq_tree(t[3])})"
    if k == "f2d":
        return f"(Kf2d {FN2[t[1]]} {coq_tree(t[2])})"
    raise HarnessError(f"bad tree {t!r}")


def coq_tok(t) -> str:
    return f"({coq_z(t[0])}, {coq_z(t[1])})"


def coq_mat(m) -> str:
    return coq_list([coq_list([coq_float(float(v)) for v in row]) for row in m])


# ======================================================================================
# generation of model sources
# ======================================================================================

def _dy(rng, lo, hi, den=8):
    return rng.randint(int(lo * den), int(hi * den)) / den


def gen_expr(rng, names, depth, rich=True):
    """random human-syntax expression; names: list of (name, maxlag, maxlead)"""
    def leaf():
        r = rng.random()
        if r < 0.72:
            nm, lo, hi = rng.choice(names)
            s = rng.randint(lo, hi) if rng.random() < 0.6 else 0
            return nm if s == 0 else f"{nm}[{s:+d}]"
        v = _dy(rng, 0.25, 3.0)
        return repr(v) if rng.random() < 0.7 else str(rng.randint(1, 3))
    if depth <= 0 or rng.random() < 0.18:
        return leaf()
    r = rng.random()
    a = gen_expr(rng, names, depth - 1, rich)
    if r < 0.5:
        b = gen_expr(rng, names, depth - 1, rich)
        op = rng.choice(["+", "-", "*", "/", "+", "*"])
        return f"({a} {op} {b})"
    if r < 0.6:
        e = rng.choice(["2", "3", "0.5", "-1", "(-2)", "1.5", "2.0"])
        return f"({a})^{e}"
    if r < 0.66:
        b = gen_expr(rng, names, max(depth - 2, 0), rich)
        return f"({a})^({b})"
    if r < 0.70:
        return f"(-{a})"
    if r < 0.74 and rich:
        return f"(+{a})"
    f = rng.choice(["log", "exp", "sqrt", "logistic", "maximum", "maximum", "maximumc"] if rich
                   else ["log", "exp", "logistic"])
    if f == "maximum":
        b = gen_expr(rng, names, depth - 1, rich)
        if rng.random() < 0.4:            # bare occurrences (Atoms that still carry their log-variable status)
            b = gen_expr(rng, names, 0, rich)
            if rng.random() < 0.5:
                a = gen_expr(rng, names, 0, rich)
        if rng.random() < 0.5:
            a, b = b, a
        return f"maximum({a}, {b})"
    if f == "maximumc":
        return f"maximum({a}, {_dy(rng, 0.25, 3.0)!r})"
    return f"{f}({a})"


def gen_spec(rng, rich=True, max_x=3, depth=3, allow_meas=True) -> dict:
    nx = rng.randint(1, max_x)
    npar = rng.randint(1, 2)
    ny = rng.randint(0, 2) if allow_meas else 0
    xs = [f"x{i}" for i in range(nx)]
    ps = [f"p{i}" for i in range(npar)]
    ys = [f"y{i}" for i in range(ny)]
    logs = [x for x in xs if rng.random() < 0.35] + [y for y in ys if rng.random() < 0.3]
    maxlag, maxlead = rng.choice([(-1, 0), (-1, 1), (-2, 1), (-1, 2), (-2, 2), (0, 1)])
    names_t = [(x, maxlag, maxlead) for x in xs] + [(p, 0, 0) for p in ps]
    names_m = [(x, min(maxlag + 1, 0), 0) for x in xs] + [(p, 0, 0) for p in ps]
    teqs, meqs = [], []
    for i, x in enumerate(xs):
        lhs = x if rng.random() < 0.8 else (f"log({x})" if rng.random() < 0.5 else f"{x}*{_dy(rng, 0.5, 2.0)!r}")
        rhs = gen_expr(rng, names_t, depth, rich)
        sh = f"e{i}" if rng.random() < 0.7 else f"{rng.choice(ps)}*e{i}"
        teqs.append(f"{lhs} = {rhs} + {sh}")
    for j, y in enumerate(ys):
        lhs = y if rng.random() < 0.8 else f"log({y})"
        rhs = gen_expr(rng, names_m, max(depth - 1, 1), rich)
        meqs.append(f"{lhs} = {rhs} + v{j}")
    values = {}
    for x in xs + ys:
        lev = _dy(rng, 0.75, 2.5)
        if x in logs:
            ch = rng.choice([1.0, 1.0, 1.125, 0.875, 1.0625])
        else:
            ch = rng.choice([0.0, 0.0, 0.125, -0.125, 0.0625])
        values[x] = (lev, ch)
    for p in ps:
        values[p] = _dy(rng, 0.25, 1.75)
    return {"xs": xs, "ps": ps, "ys": ys, "logs": logs, "teqs": teqs, "meqs": meqs, "values": values,
            "flat": rng.random() < 0.4}


def spec_source(spec) -> str:
    L = ["!transition-variables", "    " + ", ".join(spec["xs"]),
         "!transition-shocks", "    " + ", ".join(f"e{i}" for i in range(len(spec["xs"]))),
         "!parameters", "    " + ", ".join(spec["ps"])]
    if spec["logs"]:
        L += ["!log-variables", "    " + ", ".join(spec["logs"])]
    L += ["!transition-equations"] + [f"    {e};" for e in spec["teqs"]]
    if spec["ys"]:
        L += ["!measurement-variables", "    " + ", ".join(spec["ys"]),
              "!measurement-shocks", "    " + ", ".join(f"v{j}" for j in range(len(spec["ys"]))),
              "!measurement-equations"] + [f"    {e};" for e in spec["meqs"]]
    return "\n".join(L) + "\n"


def user_context(context_src: dict | None) -> dict | None:
    """user context functions are carried as lambda source text: JSON-able, hence replayable"""
    if not context_src:
        return None
    return {k: eval(v, {"np": np, "math": math}) for k, v in context_src.items()}  # noqa: S307 (our own literals)


def build_model(spec, **kw):
    import irispie as ir
    ctx_fns = user_context(spec.get("context_src"))
    if ctx_fns:
        kw = dict(kw, context=ctx_fns)
    with quiet():
        m = ir.Simultaneous.from_string(spec_source(spec), flat=spec.get("flat", False), **kw)
        m.assign(**spec["values"])
    return m


# ======================================================================================
# reading a built model
# ======================================================================================

def opaque_tree(xtring: str):
    """the tree of an xtring, or ("user",) when it calls a function outside the modelled language (user context)"""
    try:
        return tree_of_xtring(xtring)
    except HarnessError:
        return ("user",)


def model_info(m, opaque=False) -> dict:
    inv = m._invariant
    desc = inv.dynamic_descriptor
    sv = desc.system_vectors
    eqs = {e.id: e for e in inv.dynamic_equations}
    order = list(sv.transition_eids) + list(sv.measurement_eids)
    trees = {eid: (opaque_tree if opaque else tree_of_xtring)(eqs[eid].xtring) for eid in order}
    q2l = m.create_qid_to_logly()
    return dict(
        order=order, trees=trees, eqs=eqs,
        incidence={eid: sorted((t.qid, t.shift) for t in eqs[eid].incidence) for eid in order},
        logs=sorted(q for q, v in q2l.items() if v),
        teids=list(sv.transition_eids), meids=list(sv.measurement_eids),
        wrt={eid: [(t.qid, t.shift) for t in sv.eid_to_wrt_tokens[eid]] for eid in order},
        tv=[(t.qid, t.shift) for t in sv.transition_variables],
        shocks=[(t.qid, t.shift) for t in sv.transition_shocks],
        mv=[(t.qid, t.shift) for t in sv.measurement_variables],
        mshocks=[(t.qid, t.shift) for t in sv.measurement_shocks],
        min_shift=inv._min_shift, max_shift=inv._max_shift, q2l=q2l,
        name_to_qid=m.create_name_to_qid(),
    )


def steady_data(m, info):
    """the data array at which systemize() differentiates a nonlinear model (what _systemize builds)"""
    v = m._variants[0]
    ncol = -info["min_shift"] + 1 + info["max_shift"]
    arr = v.create_steady_array(info["q2l"], num_columns=ncol, shift_in_first_column=info["min_shift"])
    return np.array(arr, dtype=float), -info["min_shift"]


def rho_from_array(arr, off, toks) -> dict:
    return {(q, s): float(arr[q, off + s]) for (q, s) in toks}


def all_tokens(info) -> set:
    s = set()
    for eid in info["order"]:
        s |= tree_vars(info["trees"][eid])
    return s


def coq_model_parts(info, rho: dict) -> dict:
    eqs = coq_list([f"({coq_z(eid)}, {coq_tree(info['trees'][eid])})" for eid in info["order"]], sep=";\n     ")
    rho_l = coq_list([f"({coq_tok(k)}, {coq_float(v)})" for k, v in sorted(rho.items())])
    logs = coq_list([coq_z(q) for q in info["logs"]])
    return dict(eqs=eqs, rho=rho_l, logs=logs)


def coq_emap(d: dict, order) -> str:
    return coq_list([f"({coq_z(e)}, {coq_list([coq_tok(t) for t in d[e]])})" for e in order])


def coq_tokens(l) -> str:
    return coq_list([coq_tok(t) for t in l])


HEADER = """From Coq Require Import ZArith List Bool PrimFloat String.
From Verif Require Import lib.Dual gen.AldiGen model.AldiTree model.AldiMaps.
Import ListNotations.
Open Scope Z_scope.
Set Printing Width 1000000.
Set Printing Depth 1000000.
Notation FA := (FD []).
Notation tr := (tree FA).
Definition Kc : float -> tr := @TConst FA.
Definition Kv : Z -> Z -> tr := @TVar FA.
Definition Kpos : tr -> tr := @TPos FA.
Definition Kneg : tr -> tr := @TNeg FA.
Definition Kbin : bop -> tr -> tr -> tr := @TBin FA.
Definition Kf : fn -> tr -> tr := @TFun FA.
Definition Kf2 : fn2 -> tr -> tr -> tr := @TFun2 FA.
Definition Kf2d : fn2 -> tr -> tr := @TFun2d FA.
Definition cmp (exact : bool) : float -> float -> bool := if exact then feq else fclose 0x1.5798ee2308c3ap-27.
Definition mat_eqb (exact : bool) := list_eqb2 (list_eqb2 (cmp exact)).
Definition entry_eqb (a b : entry) : bool :=
  let '(a1, a2, a3, a4) := a in let '(b1, b2, b3, b4) := b in
  Nat.eqb a1 b1 && Nat.eqb a2 b2 && Nat.eqb a3 b3 && Nat.eqb a4 b4.
"""


def run_shards(ctx, res: CorrResult, label: str, shards: list[tuple[str, list]], per_output=1):
    """shards: (coq text, list of case descriptors); the text prints `per_output` failing-index lists"""
    if not shards:
        return
    results = core.run_cases(ctx, [s[0] for s in shards], prefix=label)
    res.shards += len(shards)
    for k, (ok, out) in enumerate(results):
        cases = shards[k][1]
        if not ok:
            res.disagreements.append(Disagreement(f"{label} shard {k} does not evaluate", None, out[-800:], None))
            continue
        bodies = core.parse_eval_lists(out)
        if len(bodies) != per_output:
            res.disagreements.append(Disagreement(f"{label} shard {k}: unparsable output", None, out[-600:], None))
            continue
        for b in bodies:
            for i in core.parse_nat_list(b):
                res.disagreements.append(Disagreement(f"{label}", cases[i], "model result differs", None))


# ======================================================================================
# correspondence (a): maps
# ======================================================================================

def gen_map_case(rng) -> dict:
    ne = rng.randint(0, 4)
    eids = rng.sample(range(0, 12), ne)
    qpool = list(range(0, 6))
    def rtok():
        return (rng.choice(qpool), rng.randint(-2, 2))
    wrt = {}
    for e in eids:
        n = rng.randint(0, 5)
        toks = []
        for _ in range(n):
            t = rtok()
            if t not in toks or rng.random() < 0.05:
                toks.append(t)
        wrt[e] = toks
    kind = rng.choice(["static", "static", "B", "stacked", "terminal"])
    ncol = rng.randint(0, 7)
    cols = []
    for _ in range(ncol):
        t = rtok()
        if t not in cols or rng.random() < 0.05:
            cols.append(t)
    c = {"kind": kind, "eids": eids, "wrt": {str(e): wrt[e] for e in eids}, "cols": cols,
         "rhs_column": rng.randint(0, 2), "lhs_column_offset": rng.randint(0, 3)}
    if kind == "stacked":
        c["columns_to_eval"] = sorted(rng.sample(range(0, 6), rng.randint(1, 3)))
        c["cols"] = [(q, s + rng.choice(c["columns_to_eval"])) for (q, s) in cols]
    if kind == "terminal":
        # the solution transition vector dated at the last simulated period; the unknowns: some of those spots missing
        # (exogenized), some other spots (earlier periods, endogenized shocks) present, in any order
        tv = []
        for _ in range(rng.randint(1, 6)):
            t = rtok()
            if t not in tv:
                tv.append(t)
        spots = [t for t in tv if rng.random() < 0.7] + [t for t in cols if t not in tv]
        rng.shuffle(spots)
        c["terminit"] = tv
        c["cols"] = spots
    return c


def impl_map_case(c: dict):
    from irispie.aldi import maps as M
    from irispie.incidences.main import Token
    eids = list(c["eids"])
    wrt = {e: [Token(*t) for t in c["wrt"][str(e)]] for e in eids}
    cols = [Token(*t) for t in c["cols"]]
    try:
        offs = M.create_eid_to_rhs_offset(tuple(eids), wrt) if eids else {}
        if c["kind"] == "terminal":
            from irispie.fords.terminators import Terminator
            fake = SimpleNamespace(_terminit_spots=tuple(Token(*t) for t in c["terminit"]), terminal_jacobian_map=None)
            Terminator.create_terminal_jacobian_map(fake, cols)
            tm = fake.terminal_jacobian_map
            if list(tm.lhs[0]) or list(tm.rhs[0]):
                return {"exc": "terminal map with row indices before completion"}
            return {"offsets": [[int(e), int(offs[e])] for e in eids],
                    "entries": [(0, int(a), 0, int(b)) for a, b in zip(tm.lhs[1], tm.rhs[1])]}
        if c["kind"] == "static":
            am = M.ArrayMap.static(eids, wrt, cols, offs, rhs_column=c["rhs_column"], lhs_column_offset=c["lhs_column_offset"])
            am.remove_nones()
        elif c["kind"] == "B":
            lag = [t.shifted(-1) for t in cols]
            lag = [t if t not in cols else None for t in lag]
            am = M.ArrayMap.static(eids, wrt, lag, offs, rhs_column=0, lhs_column_offset=0)
            am.remove_nones()
        else:
            from irispie.stacked_time._jacobians import Jacobian
            fake = SimpleNamespace(_columns_to_eval=np.array(c["columns_to_eval"], dtype=int))
            Jacobian._populate_map(fake, eids, wrt, cols, offs)
            am = fake._map
        ent = [tuple(int(v) for v in e) for e in zip(am.lhs[0], am.lhs[1], am.rhs[0], am.rhs[1])]
        return {"offsets": [[int(e), int(offs[e])] for e in eids], "entries": ent}
    except Exception as e:  # noqa
        return {"exc": f"{type(e).__name__}: {e}"[:160]}


def coq_map_case(c: dict) -> str:
    eids_ = coq_list([coq_z(e) for e in c["eids"]])
    m_ = coq_emap({e: c["wrt"][str(e)] for e in c["eids"]}, c["eids"])
    eids, m = "eids", "m"
    offs = "offs"
    if c["kind"] == "static":
        ent = f"(array_map_static {eids} {m} (some_columns {coq_tokens(c['cols'])}) {offs} {c['rhs_column']}%nat {c['lhs_column_offset']}%nat)"
    elif c["kind"] == "B":
        ent = f"(array_map_static {eids} {m} (lagged_columns {coq_tokens(c['cols'])}) {offs} 0%nat 0%nat)"
    elif c["kind"] == "terminal":
        ent = (f"(map (fun p : nat * nat => (0%nat, fst p, 0%nat, snd p)) "
               f"(terminal_jacobian_map {coq_tokens(c['terminit'])} {coq_tokens(c['cols'])}))")
    else:
        ent = f"(stacked_map {eids} {m} {coq_tokens(c['cols'])} {coq_list([coq_z(k) for k in c['columns_to_eval']])})"
    return (f"(let m := {m_} in let eids := {eids_} in let offs := create_eid_to_rhs_offset m eids in\n"
            f"    (map (fun e => (fst e, Z.of_nat (snd e))) offs, {ent}))")


def corr_maps(ctx, res: CorrResult):
    rng = ctx.rng
    n = ctx.scale(450, 12000)
    cases, outs = [], []
    for _ in range(n):
        c = gen_map_case(rng)
        o = impl_map_case(c)
        if "exc" in o:
            # zip(*[]) of an empty stacked map, or a wrt token list with duplicates: outside the model's contract
            res.distribution.setdefault("map_impl_raises", 0)
            res.distribution["map_impl_raises"] += 1
            continue
        cases.append(c); outs.append(o)
    per = 120
    shards = []
    for i in range(0, len(cases), per):
        cs, os_ = cases[i:i + per], outs[i:i + per]
        lines = [HEADER, "Definition cases : list ((list (Z * Z) * list entry) * (list (Z * Z) * list entry)) := ["]
        items = []
        for c, o in zip(cs, os_):
            exp_off = coq_list([f"({coq_z(a)}, {coq_z(b)})" for a, b in o["offsets"]])
            exp_ent = coq_list([f"({a}, {b}, {cc}, {d})%nat" for a, b, cc, d in o["entries"]])
            items.append(f"  ({coq_map_case(c)},\n   ({exp_off}, {exp_ent}))")
        lines.append(";\n".join(items))
        lines.append("].")
        lines.append("Definition same (a b : list (Z * Z) * list entry) : bool :=\n"
                     "  list_eqb2 (fun p q => Z.eqb (fst p) (fst q) && Z.eqb (snd p) (snd q)) (fst a) (fst b)\n"
                     "  && list_eqb2 entry_eqb (snd a) (snd b).")
        lines.append("Eval vm_compute in (failing_idx same cases 0).")
        shards.append(("\n".join(lines) + "\n", cs))
    run_shards(ctx, res, "maps", shards)
    res.evaluations += len(cases)
    res.distribution["map_cases"] = len(cases)
    res.distribution["map_kinds"] = {k: sum(1 for c in cases if c["kind"] == k) for k in ("static", "B", "stacked", "terminal")}
    res.distribution["map_nonempty"] = sum(1 for o in outs if o["entries"])
    return len({repr(c) for c, o in zip(cases, outs) if len(o["entries"]) >= 2})


# ======================================================================================
# correspondence (b): systemize(), steady and stacked-time Jacobians of generated models
# ======================================================================================

REJECTED_SNIPPETS = ["abs({a})", "minimum({a}, {b})", "minimum({a}, 1.5)", "normal_cdf({a})", "normal_pdf({a})",
                     "2^({a})", "maximum(1.25, {a})", "minimum({a})", "(1.5 + 0.25)^{a}", "exp(1)^{a}"]
CONST_SNIPPETS = ["abs(-1.5)*{a}", "minimum(2, 3.5)*{a}", "maximum(0.5, 2)*{a}", "sqrt(2.25) + {a}", "exp(0.5)*{a}",
                  "log(2)*{a} + log(4)", "logistic(0.25) - {a}", "2^3 * {a}", "(1/4)*{a}", "sqrt(4)/{a}", "exp(1)-{a}",
                  "maximum({a} - 1.25)", "2*maximum({a} - 2.75)", "{a}^(1+1)", "(-{a})^2", "(-{a})^(-1)", "({a} - 5)^2", "({a}-5)^3", "{a}/2", "{a}/(1/4)"]


def gen_special_spec(rng) -> dict:
    spec = gen_spec(rng, rich=False, max_x=2, depth=1, allow_meas=False)
    xs = spec["xs"]
    a = rng.choice(xs) + rng.choice(["", "[-1]", "[+1]"])
    b = rng.choice(xs + spec["ps"])
    snippet = rng.choice(REJECTED_SNIPPETS if rng.random() < 0.5 else CONST_SNIPPETS)
    spec["teqs"][0] = f"{xs[0]} = {snippet.format(a=a, b=b)} + e0"
    spec["special"] = snippet
    return spec


def impl_systemize(m, info):
    try:
        with quiet():
            s = m.systemize()
        nt, nm = len(info["teids"]), len(info["meids"])
        return {"mats": [np.array(s.A)[:nt], np.array(s.B)[:nt], np.array(s.D)[:nt], np.array(s.F), np.array(s.G),
                         np.array(s.J)]}
    except TypeError as e:
        return {"rejected": f"{type(e).__name__}: {e}"[:160]}
    except Exception as e:  # noqa
        return {"exc": f"{type(e).__name__}: {e}"[:200]}


def _shape_fix(mat, nr, nc):
    a = np.array(mat, dtype=float)
    return a.reshape(nr, nc)


def coq_sys_case(info, rho) -> str:
    p = coq_model_parts(info, rho)
    sv = (f"{{| sv_teids := {coq_list([coq_z(e) for e in info['teids']])}; sv_meids := {coq_list([coq_z(e) for e in info['meids']])}; "
          f"sv_tv := {coq_tokens(info['tv'])}; sv_shocks := {coq_tokens(info['shocks'])}; sv_mv := {coq_tokens(info['mv'])}; "
          f"sv_mshocks := {coq_tokens(info['mshocks'])} |}}")
    return (f"systemize FA (rho_of FA {p['rho']}) (lg_of {p['logs']})\n     {p['eqs']}\n     "
            f"{coq_emap(info['wrt'], info['order'])} {sv}")


def make_models(ctx, n, res, special_share=0.25):
    """generate specs whose evaluation points are admissible; returns [(spec, model, info, rho, arr, off)]"""
    rng = ctx.rng
    out = []
    tries = 0
    while len(out) < n and tries < 40 * n + 200:
        tries += 1
        special = rng.random() < special_share
        spec = gen_special_spec(rng) if special else gen_spec(rng, depth=rng.choice([2, 3, 3, 4]))
        try:
            m = build_model(spec)
            info = model_info(m)
        except HarnessError:
            raise
        except Exception as e:  # noqa  (e.g. the parser rejects the source)
            res.distribution["source_rejected"] = res.distribution.get("source_rejected", 0) + 1
            continue
        arr, off = steady_data(m, info)
        rho = rho_from_array(arr, off, all_tokens(info))
        try:
            for eid in info["order"]:
                num_eval(info["trees"][eid], rho)
        except Inadmissible:
            continue
        except (OverflowError, ZeroDivisionError, ValueError):
            continue
        out.append(SimpleNamespace(spec=spec, m=m, info=info, rho=rho, arr=arr, off=off))
    return out


def corr_systemize(ctx, res: CorrResult, models):
    cases, texts = [], []
    nontrivial = set()
    for mm in models:
        o = impl_systemize(mm.m, mm.info)
        if "exc" in o:
            res.disagreements.append(Disagreement("systemize raises", {"source": spec_source(mm.spec)}, "a system or TypeError", o["exc"]))
            continue
        exact = not any(tree_transcendental(t) for t in mm.info["trees"].values())
        info = mm.info
        if "rejected" in o:
            exp = "None"
            res.distribution["rejected_models"] = res.distribution.get("rejected_models", 0) + 1
        else:
            shapes = [(len(info["teids"]), len(info["tv"])), (len(info["teids"]), len(info["tv"])),
                      (len(info["teids"]), len(info["shocks"])), (len(info["meids"]), len(info["mv"])),
                      (len(info["meids"]), len(info["tv"])), (len(info["meids"]), len(info["mshocks"]))]
            exp = "(Some " + coq_list([coq_mat(_shape_fix(a, *sh)) for a, sh in zip(o["mats"], shapes)], sep=";\n      ") + ")"
            if sum(int(np.count_nonzero(a)) for a in o["mats"]) >= 3:
                nontrivial.add((spec_source(mm.spec), repr(sorted(mm.spec["values"].items()))))
        cases.append({"source": spec_source(mm.spec), "values": mm.spec["values"], "impl": "rejected" if "rejected" in o else "matrices"})
        texts.append(f"  (({coq_bool(exact)}, {coq_sys_case(info, mm.rho)}),\n   {exp})")
        res.distribution["exact_cases"] = res.distribution.get("exact_cases", 0) + int(exact)
    per = 45
    shards = []
    for i in range(0, len(texts), per):
        lines = [HEADER, "Definition cases : list ((bool * option (list (list (list float)))) * option (list (list (list float)))) := [",
                 ";\n".join(texts[i:i + per]), "].",
                 "Definition same (a : bool * option (list (list (list float)))) (b : option (list (list (list float)))) : bool :=\n"
                 "  opt_eqb2 (list_eqb2 (mat_eqb (fst a))) (snd a) b.",
                 "Eval vm_compute in (failing_idx same cases 0)."]
        shards.append(("\n".join(lines) + "\n", cases[i:i + per]))
    run_shards(ctx, res, "systemize", shards)
    res.evaluations += len(cases)
    res.distribution["systemize_models"] = len(cases)
    if cases:
        res.samples.append(cases[0])
    return len(nontrivial)


# ---- steady ---------------------------------------------------------------------------

def capture_steady(m, **kw):
    import irispie.steadiers.solver_dispatcher as sd
    cap = {}
    orig = sd.neqs_levenberg

    def fake(steady_evaluator, init, solver_settings):
        cap["ev"] = steady_evaluator
        raise Captured()
    sd.neqs_levenberg = fake
    try:
        with quiet():
            m.steady(split_into_blocks=False, **kw)
    except Captured:
        pass
    finally:
        sd.neqs_levenberg = orig
    return cap.get("ev")


def steady_point(ev):
    """(tree-level data) tokens of the evaluator's steady array after update with its initial guess"""
    g = np.array(ev.get_init_guess(), dtype=float)
    with quiet():
        ev.eval_func(g)
    return g, np.array(ev._steady_array, dtype=float), ev._column_offset


def corr_steady(ctx, res: CorrResult, models):
    cases, texts = [], []
    nontrivial = set()
    for mm in models:
        if mm.spec.get("special") in REJECTED_SNIPPETS:
            continue
        m = mm.m.copy()
        try:
            ev = capture_steady(m)
        except Exception as e:  # noqa
            res.distribution["steady_setup_failed"] = res.distribution.get("steady_setup_failed", 0) + 1
            continue
        if ev is None:
            continue
        flat = type(ev).__name__.startswith("Flat")
        try:
            g, arr, off = steady_point(ev)
        except (TypeError, ValueError, FloatingPointError, OverflowError, ZeroDivisionError):
            # the plain (non-differentiating) evaluation rejects the equation (one-argument maximum) or the point
            # (NonflatSteadyEquator raises on non-finite residuals): not an admissible evaluation point
            res.distribution["steady_plain_eval_rejects"] = res.distribution.get("steady_plain_eval_rejects", 0) + 1
            continue
        eqs = list(ev._equator._equator._equations)
        trees = {e.id: tree_of_xtring(e.xtring) for e in eqs}
        toks = set()
        for t in trees.values():
            toks |= tree_vars(t)
        k = 1
        toks_k = toks | {(q, s + k) for (q, s) in toks}
        try:
            rho = {(q, s): float(arr[q, off + s]) for (q, s) in toks_k}
            for t in trees.values():
                num_eval(t, rho)
                if not flat:
                    num_eval(t, {(q, s): rho[(q, s + k)] for (q, s) in toks})
        except (Inadmissible, IndexError, OverflowError, ZeroDivisionError, ValueError):
            continue
        try:
            with quiet():
                J = np.array(ev.eval_jacob(g), dtype=float)
        except TypeError:
            Jc = "None"
        except Exception as e:  # noqa
            res.disagreements.append(Disagreement("steady eval_jacob raises", {"source": spec_source(mm.spec)}, None, repr(e)[:200]))
            continue
        else:
            Jc = f"(Some {coq_mat(J)})"
            if np.count_nonzero(J) >= 3:
                nontrivial.add((spec_source(mm.spec), repr(sorted(mm.spec["values"].items()))))
        exact = not any(tree_transcendental(t) for t in trees.values())
        order = [e.id for e in eqs]
        info2 = {"order": order, "trees": trees, "logs": mm.info["logs"]}
        p = coq_model_parts(info2, rho)
        wq = coq_list([coq_z(q) for q in ev.wrt_qids])
        if flat:
            call = f"flat_steady_jacobian FA (rho_of FA {p['rho']}) (lg_of {p['logs']})\n     {p['eqs']} {wq}"
        else:
            call = f"nonflat_steady_jacobian FA {k} (rho_of FA {p['rho']}) (lg_of {p['logs']})\n     {p['eqs']} {wq}"
        cases.append({"source": spec_source(mm.spec), "values": mm.spec["values"], "flat": flat})
        texts.append(f"  (({coq_bool(exact)}, {call}),\n   {Jc})")
    per = 45
    shards = []
    for i in range(0, len(texts), per):
        lines = [HEADER, "Definition cases : list ((bool * option (list (list float))) * option (list (list float))) := [",
                 ";\n".join(texts[i:i + per]), "].",
                 "Definition same (a : bool * option (list (list float))) (b : option (list (list float))) : bool :=\n"
                 "  opt_eqb2 (mat_eqb (fst a)) (snd a) b.",
                 "Eval vm_compute in (failing_idx same cases 0)."]
        shards.append(("\n".join(lines) + "\n", cases[i:i + per]))
    run_shards(ctx, res, "steady", shards)
    res.evaluations += len(cases)
    res.distribution["steady_models"] = len(cases)
    res.distribution["steady_flat"] = sum(1 for c in cases if c["flat"])
    if cases:
        res.samples.append(cases[0])
    return len(nontrivial)


def corr_steady_plans(ctx, res: CorrResult, models):
    """steady plans fixing subsets of levels / changes: the reduced Jacobian eval_jacob returns vs the model's column
    selection (masks built by the model from the plan's two lists) applied to the full Jacobian of the same evaluator;
    also the integer index vector [positions of levels | n + positions of changes]. Compared bit-exactly."""
    rng = ctx.rng
    cases, texts = [], []
    pool = [mm for mm in models if not mm.spec.get("flat") and len(mm.spec["xs"]) + len(mm.spec["ys"]) >= 2
            and mm.spec.get("special") not in REJECTED_SNIPPETS]
    try:
        wm = build_model(STEADY_WITNESS)
        pool = [SimpleNamespace(spec=STEADY_WITNESS, m=wm, info=None)] * ctx.scale(6, 40) + pool
    except Exception:  # noqa
        pass
    for mm in pool[: ctx.scale(60, 1500)]:
        m = mm.m.copy()
        plan_spec = gen_steady_plan_spec(rng, mm.spec["xs"], mm.spec["ys"])
        try:
            ev = capture_steady(m, plan=build_steady_plan(m, plan_spec))
        except Exception:  # noqa
            res.distribution["steady_plan_setup_failed"] = res.distribution.get("steady_plan_setup_failed", 0) + 1
            continue
        if ev is None or type(ev).__name__.startswith("Flat"):
            continue
        try:
            g = np.array(ev.get_init_guess(), dtype=float)
            with quiet():
                red = np.array(ev.eval_jacob(g), dtype=float)
                full = np.array(ev._jacobian.eval(ev._steady_array, ev._column_offset), dtype=float)
        except Exception:  # noqa
            continue
        if not (np.all(np.isfinite(red)) and np.all(np.isfinite(full))) or red.ndim != 2 or full.ndim != 2:
            continue
        n2q = m.create_name_to_qid()
        names = list(mm.spec["xs"]) + list(mm.spec["ys"])
        wrt = [int(q) for q in ev.wrt_qids]
        levels = [n2q[n] for n in names if n not in plan_spec["fix_level"] and n2q[n] in wrt]
        changes = [n2q[n] for n in names if n not in plan_spec["fix_change"] and n2q[n] in wrt]
        zl = lambda l: coq_list([coq_z(q) for q in l])  # noqa
        cases.append({"source": spec_source(mm.spec), "values": mm.spec["values"], "steady_plan": plan_spec})
        texts.append(f"  (({zl(wrt)}, {zl(levels)}, {zl(changes)}, {coq_mat(full)}),\n   {coq_mat(red)})")
    per = 40
    shards = []
    for i in range(0, len(texts), per):
        lines = [HEADER, "From Verif Require Import model.AldiSelect.",
                 "Definition cases : list ((list Z * list Z * list Z * list (list float)) * list (list float)) := [",
                 ";\n".join(texts[i:i + per]), "].",
                 "Definition same (a : list Z * list Z * list Z * list (list float)) (b : list (list float)) : bool :=\n"
                 "  let '(wrt, lv, ch, full) := a in\n"
                 "  let ml := mask_of wrt lv in let mc := mask_of wrt ch in\n"
                 "  mat_eqb true (reduce_jacobian ml mc full) b &&\n"
                 "  mat_eqb true (map (fun row => gather (column_index ml mc (List.length wrt)) row 0%float) full) b.",
                 "Eval vm_compute in (failing_idx same cases 0)."]
        shards.append(("\n".join(lines) + "\n", cases[i:i + per]))
    run_shards(ctx, res, "steady_plan", shards)
    res.evaluations += len(cases)
    res.distribution["steady_plan_cases"] = len(cases)
    res.distribution["steady_plan_fixed_levels"] = sum(1 for c in cases if c["steady_plan"]["fix_level"])
    if cases:
        res.samples.append(cases[0])
    return len({(c["source"], repr(c["steady_plan"])) for c in cases})


# ---- stacked time -----------------------------------------------------------------------

def build_plan(m, span, start, plan_spec):
    """plan_spec: list of [op, period offset, name(s)...] with the public SimulationPlan methods"""
    import irispie as ir
    plan = ir.PlanSimulate(m, span)
    for op in plan_spec:
        kind, k = op[0], int(op[1])
        per = start + k
        if kind in ("swap_anticipated", "swap_unanticipated"):
            getattr(plan, kind)(per, (op[2], op[3]))
        else:
            getattr(plan, kind)(per, op[2])
    return plan


def gen_plan_spec(rng, spec, nper, favour_last=True) -> list:
    """a random legitimate plan: variables exogenized (anticipated in any simulated period, unanticipated in the first
    one) against their own or another shock, or exogenized/endogenized separately in different periods"""
    xs = spec["xs"]
    ops, used_x, used_e = [], set(), set()
    for _ in range(rng.randint(1, min(3, len(xs) * nper))):
        i = rng.randrange(len(xs))
        j = i if rng.random() < 0.7 else rng.randrange(len(xs))
        k = (nper - 1) if (favour_last and rng.random() < 0.6) else rng.randrange(nper)
        r = rng.random()
        if r < 0.6:
            if (xs[i], k) in used_x or (f"ant_e{j}", k) in used_e:
                continue
            ops.append(["swap_anticipated", k, xs[i], f"ant_e{j}"])
            used_x.add((xs[i], k)); used_e.add((f"ant_e{j}", k))
        elif r < 0.75:
            if (xs[i], 0) in used_x or (f"e{j}", 0) in used_e:
                continue
            ops.append(["swap_unanticipated", 0, xs[i], f"e{j}"])
            used_x.add((xs[i], 0)); used_e.add((f"e{j}", 0))
        else:
            k2 = rng.randrange(nper)
            if (xs[i], k) in used_x or (f"ant_e{j}", k2) in used_e:
                continue
            ops.append(["exogenize_anticipated", k, xs[i]])
            ops.append(["endogenize_anticipated", k2, f"ant_e{j}"])
            used_x.add((xs[i], k)); used_e.add((f"ant_e{j}", k2))
    return ops


def capture_stacked(m, spec, rng, nper, terminal, plan_spec=None):
    import irispie as ir
    import irispie.stacked_time.simulators as sts
    cap = {}
    orig = sts._nq.damped_newton

    def fake(eval_func, eval_jacob, init_guess, iter_printer=None, args=(), **kw):
        cap.update(eval_func=eval_func, eval_jacob=eval_jacob, init_guess=np.array(init_guess, dtype=float), data=args[0])
        raise Captured()
    start = ir.qq(2020, 1)
    span = start >> (start + nper - 1)
    with quiet():
        db = ir.Databox.steady(m, span)
        # move the data off the steady path so that every period is a different evaluation point
        for nm in spec["xs"]:
            s = db[nm]
            d = np.array(s.get_data(s.start >> s.end), dtype=float)[:, 0]
            fac = np.array([1 + rng.randint(-8, 8) / 64 for _ in range(len(d))])
            db[nm] = ir.Series(start=s.start, values=d * fac)
        for i in range(len(spec["xs"])):
            s = db[f"e{i}"]
            d = np.array(s.get_data(s.start >> s.end), dtype=float)[:, 0]
            db[f"e{i}"] = ir.Series(start=s.start, values=np.array([rng.randint(-8, 8) / 64 for _ in range(len(d))]))
    plan = build_plan(m, span, start, plan_spec) if plan_spec else None
    sts._nq.damped_newton = fake
    try:
        with quiet():
            m.simulate(db, span, method="stacked_time", terminal=terminal, initial_guess="data", plan=plan)
    except Captured:
        pass
    finally:
        sts._nq.damped_newton = orig
    return cap or None


def corr_stacked(ctx, res: CorrResult, models):
    rng = ctx.rng
    cases, texts = [], []
    nontrivial = set()
    for mm in models:
        m = mm.m.copy()
        nper = rng.randint(1, 3)
        try:
            cap = capture_stacked(m, mm.spec, rng, nper, "data")
        except Exception as e:  # noqa
            res.distribution["stacked_setup_failed"] = res.distribution.get("stacked_setup_failed", 0) + 1
            res.distribution.setdefault("stacked_setup_errors", []).append(f"{type(e).__name__}: {e}"[:100]) \
                if len(res.distribution.get("stacked_setup_errors", [])) < 3 else None
            continue
        if not cap:
            continue
        data = np.array(cap["data"], dtype=float)
        info = mm.info
        teqs = [info["eqs"][eid] for eid in info["teids"]]
        trees = {eid: info["trees"][eid] for eid in info["teids"]}
        xq = sorted(info["name_to_qid"][x] for x in mm.spec["xs"])
        ncols = data.shape[1]
        # the columns simulated and the wrt spots, as stacked_time.simulators builds them
        base = -info["min_shift"]
        cols = list(range(base, base + nper))
        spots = [(q, c) for c in cols for q in xq]
        toks = set()
        for t in trees.values():
            toks |= tree_vars(t)
        try:
            rho = {}
            for c in cols:
                r_c = {(q, s): float(data[q, s + c]) for (q, s) in toks}
                for t in trees.values():
                    num_eval(t, r_c)
                rho.update({(q, s + c): v for (q, s), v in r_c.items()})
        except (Inadmissible, IndexError, OverflowError, ZeroDivisionError, ValueError):
            continue
        try:
            with quiet():
                J = cap["eval_jacob"](None, cap["data"])
            J = np.array(J.toarray(), dtype=float)
        except TypeError:
            Jc = "None"
        except Exception as e:  # noqa
            res.disagreements.append(Disagreement("stacked eval_jacob raises", {"source": spec_source(mm.spec)}, None, repr(e)[:200]))
            continue
        else:
            if J.shape != (len(trees) * nper, len(spots)):
                res.disagreements.append(Disagreement("stacked Jacobian shape", {"source": spec_source(mm.spec)},
                                                      (len(trees) * nper, len(spots)), J.shape))
                continue
            Jc = f"(Some {coq_mat(J)})"
            if np.count_nonzero(J) >= 3:
                nontrivial.add((spec_source(mm.spec), repr(sorted(mm.spec["values"].items())), nper))
        exact = not any(tree_transcendental(t) for t in trees.values())
        order = list(info["teids"])
        p = coq_model_parts({"order": order, "trees": trees, "logs": info["logs"]}, rho)
        wrt = {eid: [tk for tk in info["incidence"][eid] if tk[0] in xq] for eid in order}
        call = (f"stacked_jacobian FA (rho_of FA {p['rho']}) (lg_of {p['logs']})\n     {p['eqs']}\n     {coq_emap(wrt, order)} "
                f"{coq_tokens(spots)} {coq_list([coq_z(c) for c in cols])}")
        cases.append({"source": spec_source(mm.spec), "values": mm.spec["values"], "periods": nper})
        texts.append(f"  (({coq_bool(exact)}, {call}),\n   {Jc})")
    per = 35
    shards = []
    for i in range(0, len(texts), per):
        lines = [HEADER, "Definition cases : list ((bool * option (list (list float))) * option (list (list float))) := [",
                 ";\n".join(texts[i:i + per]), "].",
                 "Definition same (a : bool * option (list (list float))) (b : option (list (list float))) : bool :=\n"
                 "  opt_eqb2 (mat_eqb (fst a)) (snd a) b.",
                 "Eval vm_compute in (failing_idx same cases 0)."]
        shards.append(("\n".join(lines) + "\n", cases[i:i + per]))
    run_shards(ctx, res, "stacked", shards)
    res.evaluations += len(cases)
    res.distribution["stacked_models"] = len(cases)
    if cases:
        res.samples.append(cases[0])
    return len(nontrivial)


def correspondence(ctx) -> CorrResult:
    res = CorrResult()
    res.rule = ("(a) random equation-id/token/column sets through ArrayMap.static, SystemMap's lagged columns and the stacked-time "
                "map: index lists compared verbatim; (b) generated model sources (1-3 transition variables, lags/leads up to 2, "
                "log-variables, parameters, measurement block, all operators and offered functions, a quarter of them special: "
                "rejected functions, constant sub-expressions) through Simultaneous.from_string/assign/systemize, steady() and "
                "simulate(method='stacked_time'); the trees are read back from the compiled xtrings; compared matrix by matrix, "
                "bit-exactly where no exp/ln/power is involved, else within 1e-8 relative. non-trivial = at least 2 map entries / "
                "3 non-zero derivatives; distinct = distinct source text + point")
    import time
    import traceback
    nt = 0
    models = []

    def phase(name, fn):
        nonlocal nt
        t0 = time.time()
        before = res.evaluations
        try:
            nt += fn()
        except HarnessError as e:
            res.disagreements.append(Disagreement(f"{name}: outside the modelled language", None, str(e)[:300], None))
        except Exception as e:  # noqa  -- keep what the earlier phases established
            res.disagreements.append(Disagreement(f"{name}: harness error", None, traceback.format_exc()[-600:], repr(e)[:200]))
        ctx.log(f"{name}: {res.evaluations - before} cases, {time.time() - t0:.1f}s")
    phase("maps", lambda: corr_maps(ctx, res))
    t0 = time.time()
    models = make_models(ctx, ctx.scale(300, 8000), res)
    ctx.log(f"models: {len(models)} generated, {time.time() - t0:.1f}s")
    phase("systemize", lambda: corr_systemize(ctx, res, models))
    phase("steady", lambda: corr_steady(ctx, res, models[: ctx.scale(150, 3000)]))
    phase("stacked", lambda: corr_stacked(ctx, res, models[: ctx.scale(120, 2500)]))
    phase("steady_plan", lambda: corr_steady_plans(ctx, res, models))
    res.distinct_nontrivial = nt
    res.distribution["models_generated"] = len(models)
    res.distribution["log_variable_models"] = sum(1 for mm in models if mm.spec["logs"])
    res.distribution["measurement_models"] = sum(1 for mm in models if mm.spec["ys"])
    return res


# ======================================================================================
# falsifier: the property on the public API, against central finite differences
# ======================================================================================

def _fd_close(a, b, tol=2e-5):
    a = np.asarray(a, dtype=float); b = np.asarray(b, dtype=float)
    if a.shape != b.shape:
        return False
    with np.errstate(all="ignore"):
        ok = np.abs(a - b) <= tol * (1 + np.abs(b))
    return bool(np.all(ok))


def residual_fn(m, info, extra_context=None):
    """residuals of the system equations, computed by equators.plain.PlainEquator (no differentiation involved)"""
    from irispie.equators.plain import PlainEquator
    from irispie.aldi import adaptations
    eqs = [info["eqs"][eid] for eid in info["order"]]
    pe = PlainEquator(eqs, context=adaptations.add_function_adaptations_to_context(dict(extra_context or {})))

    def f(arr, col):
        with np.errstate(all="ignore"):
            return np.array([float(v) for v in pe.eval(arr, col)], dtype=float)
    return f


def fd_partial(f, arr, off, tok, logly, nrows):
    q, s = tok
    x0 = arr[q, off + s]
    h = 1e-6 * max(1.0, abs(x0))
    a1 = arr.copy(); a2 = arr.copy()
    if logly:
        a1[q, off + s] = x0 * math.exp(h); a2[q, off + s] = x0 * math.exp(-h)
    else:
        a1[q, off + s] = x0 + h; a2[q, off + s] = x0 - h
    return (f(a1, off) - f(a2, off)) / (2 * h)


def falsify_systemize(mm, fails, info_counts, key_prefix="systemize"):
    m, info = mm.m, mm.info
    o = impl_systemize(m, info)
    src = spec_source(mm.spec)
    inp = {"source": src, "assign": mm.spec["values"], "flat": bool(mm.spec.get("flat", False))}
    repro = "m = irispie.Simultaneous.from_string(source, flat=flat); m.assign(**assign); m.systemize()"
    if mm.spec.get("context_src"):
        inp["context_src"] = mm.spec["context_src"]
        repro = ("m = irispie.Simultaneous.from_string(source, flat=flat, context={name: eval(src) for name, src in "
                 "context_src.items()}); m.assign(**assign); m.systemize()")
    if "rejected" in o:
        info_counts["rejected"] += 1
        return
    if "exc" in o:
        return
    f = residual_fn(m, info, user_context(mm.spec.get("context_src")))
    arr, off = mm.arr, mm.off
    try:
        f(arr, off)
    except TypeError:          # the plain evaluation itself rejects the equation (one-argument maximum)
        info_counts["plain_eval_rejects"] = info_counts.get("plain_eval_rejects", 0) + 1
        return
    nt, nm = len(info["teids"]), len(info["meids"])
    q2l = info["q2l"]
    A, B, D, F, G, J = [_shape_fix(a, *sh) for a, sh in zip(o["mats"], [
        (nt, len(info["tv"])), (nt, len(info["tv"])), (nt, len(info["shocks"])), (nm, len(info["mv"])),
        (nm, len(info["tv"])), (nm, len(info["mshocks"]))])]
    tv = info["tv"]
    tvset = set(tv)

    def check(name, M, rows, cols_tokens, col_index):
        for c, tok in enumerate(cols_tokens):
            if tok is None:
                continue
            if not (0 <= off + tok[1] < arr.shape[1]):
                want = np.zeros(len(rows))
            else:
                want = fd_partial(f, arr, off, tok, q2l.get(tok[0], False), len(info["order"]))[rows]
            got = M[:, col_index(c)]
            info_counts["cells"] += len(rows)
            if not _fd_close(got, want):
                r = int(np.argmax(np.abs(got - want)))
                eid = info["order"][rows[r]]
                fails.append(Failure(
                    f"{key_prefix}:{name}:{_culprit(info['trees'][eid])}",
                    f"{name}[{r},{c}] is not the derivative of equation `{info['eqs'][eid].human}` w.r.t. token {tok}"
                    f"{' (log)' if q2l.get(tok[0], False) else ''}",
                    inp, float(got[r]), float(want[r]), repro))
                return False
        return True
    trows = list(range(nt)); mrows = list(range(nt, nt + nm))
    ok = check("A", A, trows, tv, lambda c: c)
    lag = [((q, s - 1) if (q, s - 1) not in tvset else None) for (q, s) in tv]
    # a lagged column that is itself a transition variable must be an all-zero column of B
    for c, t in enumerate(lag):
        if t is None and np.any(B[:, c] != 0):
            fails.append(Failure(f"{key_prefix}:B:shadowed-column", f"B[:, {c}] should be empty", inp, B[:, c].tolist(), 0.0, repro))
    ok = check("B", B, trows, lag, lambda c: c) and ok
    ok = check("D", D, trows, info["shocks"], lambda c: c) and ok
    ok = check("F", F, mrows, info["mv"], lambda c: c) and ok
    ok = check("G", G, mrows, tv, lambda c: c) and ok
    ok = check("J", J, mrows, info["mshocks"], lambda c: c) and ok
    # every occurrence has a cell
    kinds = {"tv": set(q for q, _ in tv), "sh": set(q for q, _ in info["shocks"]), "mv": set(q for q, _ in info["mv"]),
             "ms": set(q for q, _ in info["mshocks"])}
    lagset = set(t for t in lag if t is not None)
    for eid in info["order"]:
        for tok in info["incidence"][eid]:
            q = tok[0]
            if q in kinds["tv"] and eid in info["teids"] and tok not in tvset and tok not in lagset:
                fails.append(Failure(f"{key_prefix}:no-cell", f"occurrence {tok} in `{info['eqs'][eid].human}` has no column in A or B",
                                     inp, None, None, repro))
            if q in kinds["tv"] and eid in info["meids"] and tok not in tvset:
                fails.append(Failure(f"{key_prefix}:no-cell", f"occurrence {tok} in `{info['eqs'][eid].human}` has no column in G",
                                     inp, None, None, repro))
    # the dynamic-identity rows appended to A, B, D: x_t(q, s) - x_{t-1}(q, s+1) = 0 for every non-leading entry
    try:
        with quiet():
            sysm = m.systemize()
        Af, Bf, Df = np.array(sysm.A), np.array(sysm.B), np.array(sysm.D)
        want_rows = [(i, tv.index((q, s + 1))) for i, (q, s) in enumerate(tv) if (q, s + 1) in tvset]
        ok_dyn = Af.shape[0] == nt + len(want_rows) and Bf.shape == Af.shape and Df.shape[0] == Af.shape[0]
        if ok_dyn:
            for r, (i, j) in enumerate(want_rows):
                ea = np.zeros(len(tv)); ea[i] = 1.0
                eb = np.zeros(len(tv)); eb[j] = -1.0
                ok_dyn = ok_dyn and np.array_equal(Af[nt + r], ea) and np.array_equal(Bf[nt + r], eb) and not np.any(Df[nt + r])
        if not ok_dyn:
            fails.append(Failure(f"{key_prefix}:dynamic-identity", "the identity rows of A, B, D do not link x_t(q,s) to x_{t-1}(q,s+1)",
                                 inp, [Af[nt:].tolist(), Bf[nt:].tolist()], "rows e_i / -e_j", repro))
    except Exception:  # noqa
        pass
    info_counts["systemize_models"] += 1


def _culprit(t) -> str:
    """names of the functions / special operators occurring in a tree: a stable key for a failing call shape"""
    acc = set()
    if t == ("user",):
        return "user-function"

    def walk(u):
        if u[0] == "f1" or u[0] == "f2" or u[0] == "f2d":
            acc.add(u[1] + ("(atom,atom)" if u[0] == "f2" and tree_vars(u[3]) else ""))
        if u[0] == "bin" and u[1] == "BPow":
            acc.add("pow")
        for a in u[1:]:
            if isinstance(a, tuple):
                walk(a)
    walk(t)
    return "+".join(sorted(acc)) or "arith"


def build_steady_plan(m, plan_spec):
    """plan_spec: {"fix_level": [names], "fix_change": [names]} through the public SteadyPlan methods"""
    import irispie as ir
    plan = ir.SteadyPlan(m)
    if plan_spec.get("fix_level"):
        plan.fix_level(tuple(plan_spec["fix_level"]))
    if plan_spec.get("fix_change"):
        plan.fix_change(tuple(plan_spec["fix_change"]))
    return plan


def gen_steady_plan_spec(rng, xs, ys=()) -> dict:
    """a random steady plan: any subset of the levels and - independently - of the changes is fixed (asymmetric on
    purpose: the unknown vector is [iterated levels | iterated changes], the full Jacobian [all levels | all changes])"""
    names = list(xs) + list(ys)
    while True:
        fl = [n for n in names if rng.random() < 0.45]
        fc = [n for n in names if rng.random() < 0.35]
        if (fl or fc) and (len(fl) < len(names) or len(fc) < len(names)):
            return {"fix_level": fl, "fix_change": fc}


def _plan_tag(plan_spec) -> str:
    if not plan_spec:
        return ""
    return ":plan[" + ("L" if plan_spec.get("fix_level") else "") + ("C" if plan_spec.get("fix_change") else "") + "]"


def falsify_steady(mm, fails, info_counts, plan_spec=None):
    if mm.spec.get("special") in REJECTED_SNIPPETS:
        return
    m = mm.m.copy()
    try:
        kw = {"plan": build_steady_plan(m, plan_spec)} if plan_spec else {}
        ev = capture_steady(m, **kw)
    except Exception as e:  # noqa
        if plan_spec:
            info_counts["steady_plan_setup_failed"] = info_counts.get("steady_plan_setup_failed", 0) + 1
        return
    if ev is None:
        return
    if plan_spec:
        info_counts["steady_with_plan"] = info_counts.get("steady_with_plan", 0) + 1
    g = np.array(ev.get_init_guess(), dtype=float)
    if g.size == 0:
        return

    def F(q):
        with quiet():
            return np.array(ev.eval_func(np.array(q, dtype=float)), dtype=float).ravel()
    try:
        f0 = F(g)
        with quiet():
            J = np.array(ev.eval_jacob(g), dtype=float)
    except Exception:  # noqa
        return
    if not np.all(np.isfinite(f0)):
        return
    # admissibility of the point: reuse the margins on the trees at t and t+k
    eqs = list(ev._equator._equator._equations)
    try:
        _, arr, off = steady_point(ev)
        for e in eqs:
            t = opaque_tree(e.xtring)
            toks = tree_vars(t)
            if t == ("user",):
                continue
            for k in (0, 1):
                num_eval(t, {(q, s): float(arr[q, off + s + k]) for (q, s) in toks}, margin=0.08)
    except (Inadmissible, IndexError, OverflowError, ZeroDivisionError, ValueError, TypeError):
        return
    W = np.zeros_like(J)
    for i in range(len(g)):
        h = 1e-6 * max(1.0, abs(g[i]))
        gp = g.copy(); gp[i] += h; gm = g.copy(); gm[i] -= h
        W[:, i] = (F(gp) - F(gm)) / (2 * h)
    F(g)
    info_counts["steady_models"] += 1
    info_counts["cells"] += J.size
    if not _fd_close(J, W):
        r, c = np.unravel_index(int(np.argmax(np.abs(J - W))), J.shape)
        kind = "flat" if type(ev).__name__.startswith("Flat") else "nonflat"
        block = "t" if r < len(eqs) else "t+k"
        fails.append(Failure(
            f"steady:{kind}{_plan_tag(plan_spec)}:{block}:{_culprit(opaque_tree(eqs[r % len(eqs)].xtring))}",
            f"steady Jacobian ({kind}{', steady plan ' + str(plan_spec) if plan_spec else ''}) entry [{r},{c}] "
            f"(residual block {block}; unknown {c} of [iterated levels | iterated changes]) is not the derivative of eval_func",
            dict({"source": spec_source(mm.spec), "assign": mm.spec["values"], "flat": mm.spec["flat"]},
                 **({"steady_plan": plan_spec} if plan_spec else {}),
                 **({"context_src": mm.spec["context_src"]} if mm.spec.get("context_src") else {})),
            float(J[r, c]), float(W[r, c]),
            "m = irispie.Simultaneous.from_string(source, flat=flat); m.assign(**assign); p = irispie.SteadyPlan(m); "
            "p.fix_level(steady_plan['fix_level']); p.fix_change(steady_plan['fix_change']); "
            "m.steady(split_into_blocks=False, plan=p) "
            "-> SteadyEvaluator.eval_jacob(init) vs central differences of eval_func"))


def falsify_stacked(mm, rng, fails, info_counts, force_terminal=None, plan_spec=None, nper=None, point_shifts=None,
                    data_seed=None):
    """plan_spec: None = no plan, "random" = draw one, or an explicit list (replay)"""
    if mm.spec.get("special") in REJECTED_SNIPPETS:
        return
    m = mm.m.copy()
    nper_given = nper
    nper = nper_given or rng.randint(1, 3)
    terminal = "data"
    if force_terminal:
        terminal = force_terminal
        nper = nper_given or rng.randint(2, 4)
    elif not mm.spec.get("context_src") and rng.random() < 0.35 and mm.info["max_shift"] > 0:
        # (not for user context functions: their trees are opaque to the admissibility margins below, and a solved
        #  steady state may be a degenerate point where the two-sided quotient itself is meaningless)
        try:
            with quiet():
                m.steady()
                m.solve()
            terminal = "first_order"
        except Exception:  # noqa
            m = mm.m.copy()
    if plan_spec == "random":
        plan_spec = gen_plan_spec(rng, mm.spec, nper)
    if data_seed is None:
        data_seed = rng.randrange(2 ** 31)
    import random as _random
    try:
        cap = capture_stacked(m, mm.spec, _random.Random(data_seed), nper, terminal, plan_spec or None)
    except Exception as e:  # noqa
        if plan_spec:
            info_counts["plan_setup_failed"] = info_counts.get("plan_setup_failed", 0) + 1
            info_counts.setdefault("plan_setup_errors", [])
            if len(info_counts["plan_setup_errors"]) < 3:
                info_counts["plan_setup_errors"].append(f"{type(e).__name__}: {e}"[:140])
        return
    if not cap:
        return
    if plan_spec:
        info_counts["stacked_with_plan"] = info_counts.get("stacked_with_plan", 0) + 1
    g0 = cap["init_guess"]
    data = cap["data"]

    def F(q):
        with quiet():
            return np.array(cap["eval_func"](np.array(q, dtype=float), data), dtype=float).ravel()
    info = mm.info
    base = -info["min_shift"]
    # The evaluator (and its terminator) is a stateful object used for a whole Newton run: eval_jacob is called SEVERAL
    # times on the same object, at different points; every call must return the derivative of eval_func at ITS point.
    shifts_used = list(point_shifts) if point_shifts is not None else _draw_point_shifts(rng, mm.spec)
    points = [("call", g0 + np.array([sh * max(abs(v), 0.5) for v in g0])) for sh in shifts_used]
    for call, (tag, g) in enumerate(points):
        try:
            f0 = F(g)
            with quiet():
                J = np.array(cap["eval_jacob"](g, data).toarray(), dtype=float)
        except Exception:  # noqa
            return
        if not np.all(np.isfinite(f0)) or not np.all(np.isfinite(J)):
            if call == 0:
                return
            continue
        try:
            arr = np.array(data, dtype=float)
            for eid in info["teids"]:
                t = info["trees"][eid]
                if t == ("user",):
                    continue
                toks = tree_vars(t)
                for c in range(base, base + nper):
                    num_eval(t, {(q, s): float(arr[q, s + c]) for (q, s) in toks}, margin=0.08)
        except (Inadmissible, IndexError, OverflowError, ZeroDivisionError, ValueError):
            # not an admissible point (domain edge or near a kink): nothing is demanded of THIS call, but it has been
            # made - the later calls on the same evaluator must still be right
            if call == 0 and point_shifts is None and not mm.spec.get("stable"):
                return
            continue
        W = np.zeros_like(J)
        for i in range(len(g)):
            h = 1e-6 * max(1.0, abs(g[i]))
            gp = g.copy(); gp[i] += h; gm = g.copy(); gm[i] -= h
            W[:, i] = (F(gp) - F(gm)) / (2 * h)
        F(g)
        info_counts["stacked_models" if call == 0 else "stacked_later_calls"] = \
            info_counts.get("stacked_models" if call == 0 else "stacked_later_calls", 0) + 1
        info_counts["cells"] += J.size
        if not _fd_close(J, W):
            r, c = np.unravel_index(int(np.argmax(np.abs(J - W))), J.shape)
            neq = len(info["teids"])
            eid = info["teids"][r % neq]
            fails.append(Failure(
                f"stacked:{terminal}{':plan' if plan_spec else ''}{':later-call' if call else ''}:{_culprit(info['trees'][eid])}",
                f"stacked-time Jacobian entry [{r},{c}] (equation `{info['eqs'][eid].human}`, period {r // neq}, terminal={terminal}"
                f"{', plan=' + str(plan_spec) if plan_spec else ''}; call number {call + 1} of eval_jacob on the same evaluator, "
                f"points = initial guess shifted by {shifts_used[:call + 1]} x max(|v|, 0.5)) is not the derivative of eval_func",
                dict({"source": spec_source(mm.spec), "assign": mm.spec["values"], "periods": nper, "terminal": terminal,
                      "flat": bool(mm.spec.get("flat", False)), "plan": plan_spec or None,
                      "solve_first": bool(mm.spec.get("stable", False)), "point_shifts": shifts_used[:call + 1],
                      "data_seed": data_seed},
                     **({"context_src": mm.spec["context_src"]} if mm.spec.get("context_src") else {})),
                float(J[r, c]), float(W[r, c]),
                "m.simulate(db, span, method='stacked_time', terminal=..., plan=PlanSimulate with the listed operations) -> "
                "evaluator.eval_jacob vs central differences of eval_func, at the initial guess and then at the shifted points, "
                "all on the same evaluator object"))
            return


def _draw_point_shifts(rng, spec) -> list:
    """relative shifts of the whole vector of unknowns for the successive calls on the same evaluator (the first one is
    the initial guess itself, except for some of the solved models): alternating directions, so that occasionally binding
    terms (maximum) are met on one branch first and on the other afterwards, in either order"""
    if not spec.get("stable"):
        return [0.0] + [rng.choice([-1, 1]) * rng.choice([0.125, 0.25, 0.375, 0.5]) for _ in range(rng.choice([0, 1, 1, 2]))]
    def amount(sign):
        return rng.choice([0.5, 0.75, 1.0]) if sign > 0 else -rng.choice([0.25, 0.375, 0.5])
    sg = rng.choice([-1, 1])
    first = 0.0 if rng.random() < 0.4 else amount(-sg)
    return [first] + [amount(sg * (-1) ** i) for i in range(rng.choice([1, 2, 2, 3]))]


def gen_stable_spec(rng, obc=False) -> dict:
    """a small model with a known steady state x = m (so that it can be solved and simulated with terminal='first_order')"""
    n = rng.randint(1, 3)
    xs = [f"x{i}" for i in range(n)]
    logs = [x for x in xs if rng.random() < 0.4]
    means = {x: _dy(rng, 1.0, 2.0) for x in xs}
    teqs = []
    for i, x in enumerate(xs):
        a = rng.choice([0.5, 0.25, 0.375]); b = rng.choice([0.125, 0.25, 0.1875])
        o = xs[(i + 1) % n]
        lead = rng.choice([1, 1, 2])
        nl = rng.choice([f"0.125*({o} - {means[o]!r})*({x}[-1] - {means[x]!r})",
                         f"0.25*(sqrt({o}/{means[o]!r}) - 1)", f"0.125*(maximum({o}, p0) - {means[o]!r})",
                         f"0.125*log({o}[+1]/{means[o]!r})", f"0.0625*(({o}/{means[o]!r})^2 - 1)"])
        if obc and (i == 0 or rng.random() < 0.5):
            # occasionally binding term: the ONLY lead of this equation sits inside maximum(), whose derivative is exactly
            # zero on the inactive branch (kink constant c on either side of the steady state, 0.125-0.19 away from it)
            c = means[o] + rng.choice([-1, 1]) * rng.choice([0.125, 0.15625, 0.1875])
            at_ss = max(means[o], c)
            term = rng.choice([f"{b!r}*(maximum({o}[+1], {c!r}) - {at_ss!r})",
                               f"{b!r}*(maximum({o}[+1] - {c!r}, 0) - {at_ss - c!r})",
                               f"{b!r}*(maximum(2*{o}[+1], {2 * c!r}) - {2 * at_ss!r})"])
            teqs.append(f"{x} = {1 - a!r}*{means[x]!r} + {a!r}*{x}[-1] + {term} + e{i}")
            continue
        teqs.append(f"{x} = {1 - a - b!r}*{means[x]!r} + {a!r}*{x}[-1] + {b!r}*{x}[{lead:+d}] + {nl} + e{i}")
    values = {x: (means[x], 1.0 if x in logs else 0.0) for x in xs}
    values["p0"] = 0.5
    return {"xs": xs, "ps": ["p0"], "ys": [], "logs": logs, "teqs": teqs, "meqs": [], "values": values, "flat": True,
            "stable": True, "obc": bool(obc)}


def falsify_terminal(ctx, fails, counts):
    """stacked-time Jacobian including the terminal-condition correction (fords/terminators.py)"""
    rng = ctx.rng
    done = 0
    for _i in range(ctx.scale(16, 300)):
        spec = gen_stable_spec(rng, obc=(_i % 2 == 1))
        try:
            m = build_model(spec)
            with quiet():
                m.solve()
            info = model_info(m)
            arr, off = steady_data(m, info)
        except HarnessError:
            raise
        except Exception:  # noqa
            counts["terminal_setup_failed"] = counts.get("terminal_setup_failed", 0) + 1
            continue
        mm = SimpleNamespace(spec=spec, m=m, info=info, rho=None, arr=arr, off=off)
        before = counts["stacked_models"]
        for _ in range(4 if spec.get("obc") else 1):
            falsify_stacked(mm, rng, fails, counts, force_terminal="first_order")
        # the same model under simulation plans: exogenized points (often in the last simulated period) take spots out of
        # the unknowns, endogenized shocks add some: the terminal-condition columns must follow
        for _ in range(ctx.scale(2, 3)):
            falsify_stacked(mm, rng, fails, counts, force_terminal="first_order", plan_spec="random")
        falsify_stacked(mm, rng, fails, counts, force_terminal="data", plan_spec="random")
        done += counts["stacked_models"] - before
    counts["terminal_first_order_models"] = done


WITNESSES = [
    # (source of the special equation, values): the candidate defects of DESIGN.md section 7
    ("x0 = sqrt(x0[-1]*x0[-1]) + e0", {"x0": (4.0, 0.0), "p0": 0.5}),
    ("x0 = maximum(p0, 3*x0[-1]) + e0", {"x0": (1.0, 0.0), "p0": 1.0}),
    ("x0 = 0.5*maximum(x0[-1], x0[+1]*1.5) + e0", {"x0": (1.0, 0.0), "p0": 1.0}),
    ("x0 = p0*sqrt(x0[-1]) + e0", {"x0": (2.25, 0.0), "p0": 0.5}),
    # every name offered in equations, applied to a model variable: differentiated correctly or rejected
    ("x0 = 0.5*log(x0[-1]) + e0", {"x0": (1.5, 0.0), "p0": 0.5}),
    ("x0 = 0.25*exp(x0[-1]) + e0", {"x0": (1.5, 0.0), "p0": 0.5}),
    ("x0 = logistic(x0[-1]) + e0", {"x0": (1.5, 0.0), "p0": 0.5}),
    ("x0 = 0.5*abs(x0[-1] - 3) + e0", {"x0": (1.5, 0.0), "p0": 0.5}),
    ("x0 = normal_cdf(x0[-1]) + e0", {"x0": (0.75, 0.0), "p0": 0.5}),
    ("x0 = normal_pdf(x0[-1]) + e0", {"x0": (0.75, 0.0), "p0": 0.5}),
    ("x0 = 0.5*maximum(x0[-1], 2) + 0.25*maximum(x0[+1], 1) + e0", {"x0": (1.5, 0.0), "p0": 0.5}),
    ("x0 = 0.5*minimum(x0[-1], 2) + e0", {"x0": (1.5, 0.0), "p0": 0.5}),
    ("x0 = 0.5*minimum(x0[-1], 1) + e0", {"x0": (1.5, 0.0), "p0": 0.5}),
    ("x0 = 0.5*minimum(x0[-1], 3*p0) + 0.25*minimum(x0[+1], p0) + e0", {"x0": (1.25, 0.0), "p0": 0.5}),
    ("x0 = 0.5*minimum(2, x0[-1]) + e0", {"x0": (1.5, 0.0), "p0": 0.5}),
    ("x0 = 0.5*maximum(2, x0[-1]) + e0", {"x0": (1.5, 0.0), "p0": 0.5}),
    ("x0 = 0.25*2^x0[-1] + e0", {"x0": (1.5, 0.0), "p0": 0.5}),
    ("x0 = 0.25*p0^x0[-1] + 0.125*x0[+1]^p0 + e0", {"x0": (1.5, 0.0), "p0": 0.5}),
    ("x0 = 0.25*x0[-1]^2 + 0.125*(x0[+1] - 3)^2 + 0.5*(x0[-1] - 2)^(-1) + e0", {"x0": (1.5, 0.0), "p0": 0.5}),
    ("x0 = 0.5/x0[-1] + x0[+1]/p0 + p0/(1 + x0[-1]) - (1 - x0[-1]) + e0", {"x0": (1.5, 0.0), "p0": 0.5}),
]


def witness_specs():
    for eq, vals in WITNESSES:
        yield {"xs": ["x0"], "ps": ["p0"], "ys": [], "logs": [], "teqs": [eq], "meqs": [], "values": vals, "flat": True}


# a growing steady path with a product of two trending variables (candidate defect: second block row of the
# non-flat steady Jacobian evaluated at t instead of t+k)
STEADY_WITNESS = {"xs": ["x0", "x1", "x2"], "ps": ["p0", "p1"], "ys": [], "logs": ["x1"],
                  "teqs": ["x2 = 0.3*x0[-1]*x1[+1] + 0.2*x2[-1] + e2", "x0 = x0[-1] + p1 + e0", "x1 = x1[-1]*exp(p0)*exp(e1)"],
                  "meqs": [], "values": {"p0": 0.1, "p1": 0.3, "x0": (1.0, 0.3), "x1": (2.0, 1.1), "x2": (0.75, 0.2)},
                  "flat": False}


# user functions from the model context (finite_differentiators.py): every argument position may hold a numeric
# literal (a plain Python number, skipped by the differentiator), a parameter, a variable occurrence or an expression
USER_FUNCTIONS = {
    "uaff2": ("lambda a, b: 2.0*a - 0.5*b + 1.0", 2),
    "umix2": ("lambda a, b: a*a*b + np.sin(a)", 2),
    "uaff3": ("lambda a, b, c: 2.0*a - 0.5*b + 0.25*c + 1.0", 3),
    "blend": ("lambda w, p, q: w*p**2 + (1 - w)*q**3", 3),
    "usm3": ("lambda a, b, c: np.exp(0.25*a)*b + b/c + a*c", 3),
    "ufour": ("lambda a, b, c, d: a*b - c*d*d + a/d", 4),
}
ARG_KINDS = ("lit", "par", "var", "expr")


def _user_arg(rng, kind, xs, ps):
    if kind == "lit":
        return repr(_dy(rng, 0.25, 1.75)) if rng.random() < 0.8 else str(rng.randint(1, 2))
    if kind == "par":
        return rng.choice(ps)
    x = rng.choice(xs)
    v = x + rng.choice(["", "", "[-1]", "[+1]"])
    if kind == "var":
        return v
    return rng.choice([f"{v}*{rng.choice(ps)}", f"(0.5 + {v})", f"2*{v}", f"({v} + {rng.choice(xs)}[-1])"])


def user_function_patterns(nargs):
    """all assignments of argument kinds with at least one variable/expression argument"""
    import itertools
    return [p for p in itertools.product(ARG_KINDS, repeat=nargs) if any(k in ("var", "expr") for k in p)]


def gen_user_spec(rng, name, pattern, pattern2=None) -> dict:
    xs = ["x0", "x1"]
    ps = ["p0", "p1"]
    logs = ["x1"] if rng.random() < 0.4 else []
    call1 = f"{name}({', '.join(_user_arg(rng, k, xs, ps) for k in pattern)})"
    call2 = f"{name}({', '.join(_user_arg(rng, k, xs, ps) for k in (pattern2 or pattern[::-1]))})"
    teqs = [f"x0 = 0.125*{call1} + e0", f"{'log(x1)' if logs and rng.random() < 0.5 else 'x1'} = 0.25*{call2} + p0*e1"]
    values = {"x0": (_dy(rng, 0.75, 2.0), rng.choice([0.0, 0.0, 0.0625])),
              "x1": (_dy(rng, 0.75, 2.0), rng.choice([1.0, 1.0, 1.0625]) if logs else rng.choice([0.0, 0.0625])),
              "p0": _dy(rng, 0.5, 1.5), "p1": _dy(rng, 0.5, 1.5)}
    return {"xs": xs, "ps": ps, "ys": [], "logs": logs, "teqs": teqs, "meqs": [], "values": values,
            "flat": rng.random() < 0.5, "context_src": {name: USER_FUNCTIONS[name][0]},
            "pattern": ",".join(pattern)}


USER_WITNESSES = [
    # a numeric literal BEFORE variable arguments (the differentiator must skip it without shifting positions)
    ("blend", ("lit", "var", "var")), ("blend", ("lit", "lit", "var")), ("blend", ("par", "lit", "var")),
    ("blend", ("var", "lit", "var")), ("uaff3", ("lit", "var", "expr")), ("usm3", ("lit", "par", "var")),
    ("ufour", ("lit", "var", "lit", "var")), ("ufour", ("var", "lit", "lit", "expr")), ("umix2", ("lit", "var")),
    ("uaff2", ("lit", "expr")), ("umix2", ("var", "lit")), ("blend", ("var", "var", "lit")),
]


def user_function_checks(ctx, fails, info_counts):
    """functions from the model context are differentiated by two-sided quotients: systemize(), the steady and the
    stacked-time Jacobians against central differences of the plain residual, for every placement of literal /
    parameter / variable / expression arguments"""
    rng = ctx.rng
    todo = list(USER_WITNESSES)
    for name, (_, nargs) in USER_FUNCTIONS.items():
        pats = user_function_patterns(nargs)
        if ctx.thorough:
            todo += [(name, p) for p in pats for _ in range(3)]
        elif nargs <= 3:
            todo += [(name, p) for p in pats if "lit" in p or rng.random() < 0.3]
        else:
            todo += [(name, p) for p in rng.sample(pats, 24)]
    info_counts["user_function_models"] = 0
    info_counts["user_function_patterns"] = len({(n, p) for n, p in todo})
    todo = [("blend", None)] + todo
    for name, pattern in todo:
        if pattern is None:       # fixed: a literal first, then two different variable occurrences
            spec = {"xs": ["x0", "x1"], "ps": ["p0", "p1"], "ys": [], "logs": [],
                    "teqs": ["x0 = 0.125*blend(0.25, x1, x0[-1]) + e0", "x1 = p0*x1[-1] + p1 + e1"], "meqs": [],
                    "values": {"x0": (3.0, 0.0), "x1": (2.0, 0.0), "p0": 0.5, "p1": 1.0}, "flat": True,
                    "context_src": {"blend": USER_FUNCTIONS["blend"][0]}, "pattern": "lit,var,var"}
            pattern = ("lit", "var", "var")
        else:
            spec = gen_user_spec(rng, name, tuple(pattern))
        try:
            m = build_model(spec)
            info = model_info(m, opaque=True)
            arr, off = steady_data(m, info)
        except Exception as e:  # noqa
            info_counts["user_function_errors"] = info_counts.get("user_function_errors", 0) + 1
            info_counts.setdefault("user_function_error_samples", [])
            if len(info_counts["user_function_error_samples"]) < 3:
                info_counts["user_function_error_samples"].append(f"{type(e).__name__}: {e}"[:120])
            continue
        mm = SimpleNamespace(spec=spec, m=m, info=info, rho=None, arr=arr, off=off)
        before = info_counts["systemize_models"]
        falsify_systemize(mm, fails, info_counts, key_prefix=f"user-function:{name}({spec['pattern']})")
        info_counts["user_function_models"] += info_counts["systemize_models"] - before
        n0 = len(fails)
        if ctx.thorough or (name, tuple(pattern)) in USER_WITNESSES or rng.random() < 0.3:
            falsify_steady(mm, fails, info_counts)
            falsify_stacked(mm, rng, fails, info_counts)
        for f_ in fails[n0:]:
            f_.key = f"user-function:{name}({spec['pattern']}):" + f_.key
        if len(fails) > 60:
            break


# Every operator and offered function with BARE variable occurrences as operands (in-context Atoms: the only ones whose
# derivative goes through the log-variable chain rule of the property Atom.diff), in every operand position, for every
# assignment of log-status, on both sides of the maximum/minimum kink.
OPERAND_TEMPLATES = [
    "0.25*maximum({a}, {b})", "0.25*maximum({b}, {a})", "0.25*maximum(1*{a}, {b})", "0.25*maximum({a}, {b}*1)",
    "0.25*maximum({a}, p0)", "0.25*maximum({a}, 1.5)", "0.25*maximum(0.5*{a}, maximum({b}, p0))",
    "0.25*minimum({a}, {b})", "0.25*minimum({b}, {a})", "0.25*minimum({a}, 1.5)",
    "0.25*({a} + {b})", "0.25*({a} - {b})", "0.25*{a}*{b}", "0.5*{a}/{b}", "0.25*{a}^{b}", "0.125*{a}^2", "0.25*{a}^p0",
    "0.25*p0^{a}", "0.25*(2 + {a})", "0.25*(3 - {a})", "0.25*(2*{a})", "0.5*(2/{a})", "0.25*({a} - 1)", "0.25*({a}/2)",
    "0.25*log({a})", "0.125*exp({a})", "0.25*sqrt({a})", "logistic({a})", "0.25*(-{a})", "0.25*(+{a})",
    "0.25*log({a}*{b})", "0.25*sqrt({a}/{b})", "0.125*exp({a} - {b})",
]
OPERAND_OCCURRENCES = [("x0[-1]", "x1"), ("x1", "x0[-1]"), ("x1[+1]", "x0"), ("x0", "x1[-1]"), ("x1[-1]", "x1[+1]"),
                       ("x0[+1]", "x0[-1]")]


def operand_grid_specs(ctx):
    rng = ctx.rng
    for tpl in OPERAND_TEMPLATES:
        combos = [(occ, logs, order) for occ in OPERAND_OCCURRENCES for logs in (["x0", "x1"], ["x1"], ["x0"], [])
                  for order in (0, 1)]
        if not ctx.thorough:
            keep = [c for c in combos if c[1]]                      # at least one log-variable
            combos = rng.sample(keep, 6 if "imum" in tpl else 3)
        for (a, b), logs, order in combos:
            lo, hi = _dy(rng, 0.625, 1.25), _dy(rng, 1.5, 2.5)
            v0, v1 = (lo, hi) if order == 0 else (hi, lo)
            yield {"xs": ["x0", "x1"], "ps": ["p0"], "ys": [], "logs": list(logs),
                   "teqs": [f"x0 = {tpl.format(a=a, b=b)} + e0", "x1 = p0*x1[-1] + 0.5 + e1"], "meqs": [],
                   "values": {"x0": (v0, 1.0 if "x0" in logs else 0.0), "x1": (v1, 1.0 if "x1" in logs else 0.0),
                              "p0": _dy(rng, 0.5, 1.25)},
                   "flat": True, "grid": tpl}


def operand_grid_checks(ctx, fails, counts):
    counts["operand_grid_models"] = 0
    for spec in operand_grid_specs(ctx):
        try:
            m = build_model(spec)
            info = model_info(m)
            arr, off = steady_data(m, info)
        except HarnessError:
            raise
        except Exception as e:  # noqa
            counts.setdefault("operand_grid_errors", []).append(f"{type(e).__name__}: {e}"[:120]) \
                if len(counts.get("operand_grid_errors", [])) < 3 else None
            continue
        mm = SimpleNamespace(spec=spec, m=m, info=info, rho=None, arr=arr, off=off)
        try:
            rho = rho_from_array(arr, off, all_tokens(info))
            for eid in info["order"]:
                num_eval(info["trees"][eid], rho)
        except (Inadmissible, OverflowError, ZeroDivisionError, ValueError):
            continue
        before = counts["systemize_models"]
        falsify_systemize(mm, fails, counts)
        counts["operand_grid_models"] += counts["systemize_models"] - before
        if "imum" in spec["grid"] or ctx.thorough:
            falsify_steady(mm, fails, counts)
            falsify_stacked(mm, ctx.rng, fails, counts)
        if len(fails) > 60:
            break


LINEAR_SESSION_SOURCE = """
!transition-variables x, y, z
!transition-shocks ex, ey
!parameters rho, a, b, c
!transition-equations
  x = rho*x[-1] + (1-rho)*c + a*ey + ex;
  y = b*y[-1] + a*x + rho*z[+1] + ey;
  z = a*b*x[-1] + c*y;
!measurement-variables o
!measurement-shocks w
!measurement-equations
  o = a*x + b*z + w;
"""


def _sys_mats(m):
    with quiet():
        s = m.systemize()
    if not isinstance(s, (list, tuple)):
        s = [s]
    return [[np.array(getattr(v, k), dtype=float) for k in ("A", "B", "C", "D", "F", "G", "H", "J")] for v in s]


def falsify_evaluation_sessions(ctx, fails, counts):
    """The derivative is the true one AT ANY ADMISSIBLE EVALUATION POINT: the point includes the parameter values, and one model
    object is evaluated at several points (parameter variants; assign -> systemize -> assign -> systemize).  Whatever is kept
    between evaluations (the aldi context lives in the invariant shared by all variants), the matrices of the k-th evaluation
    must be those a freshly built model returns for the same parameter values (the true derivative is unique, so a difference
    means one of the two is wrong).  linear=True and linear=False models."""
    import irispie as ir
    rng = ctx.rng
    counts["session_models"] = 0

    def fresh(linear, vals):
        m = ir.Simultaneous.from_string(LINEAR_SESSION_SOURCE, linear=linear)
        m.assign(**vals)
        return _sys_mats(m)[0]

    def draw():
        return {"rho": round(rng.uniform(0.1, 0.9), 3), "a": round(rng.uniform(0.5, 3.0), 3), "b": round(rng.uniform(0.1, 0.9), 3),
                "c": round(rng.uniform(-2, 2), 3), "x": 0.0, "y": 0.0, "z": 0.0, "o": 0.0}

    for it in range(ctx.scale(8, 120)):
        linear = it % 2 == 0
        pts = [draw() for _ in range(rng.randint(2, 4))]
        kind = "variants" if it % 4 < 2 else "reassign"
        inp = {"source": LINEAR_SESSION_SOURCE, "linear": linear, "kind": kind, "points": pts}
        try:
            m = ir.Simultaneous.from_string(LINEAR_SESSION_SOURCE, linear=linear)
            got = []
            if kind == "variants":
                m.alter_num_variants(len(pts))
                m.assign(**{k: [p_[k] for p_ in pts] for k in pts[0]})
                got = _sys_mats(m)
            else:
                for p_ in pts:
                    m.assign(**p_)
                    got.append(_sys_mats(m)[0])
            counts["session_models"] += 1
            for k_, p_ in enumerate(pts):
                want = fresh(linear, p_)
                for nm, g_, w_ in zip("ABCDFGHJ", got[k_], want):
                    if g_.shape != w_.shape or not np.allclose(g_, w_, rtol=1e-9, atol=1e-12, equal_nan=True):
                        fails.append(Failure(f"session:{kind}:{'linear' if linear else 'nonlinear'}:{nm}",
                                             f"systemize() evaluation number {k_ + 1} on one model object ({kind}) returns a matrix {nm} that differs "
                                             "from the one a freshly built model returns for the same parameter values",
                                             dict(inp, evaluation=k_), g_.tolist(), w_.tolist(),
                                             "m = irispie.Simultaneous.from_string(source, linear=linear); evaluate at points[0..k] "
                                             "(alter_num_variants+assign lists | assign/systemize in turn); compare m.systemize() with a fresh model"))
                        raise StopIteration
        except StopIteration:
            pass
        except HarnessError:
            raise
        except Exception as e:  # noqa
            counts.setdefault("session_errors", []).append(f"{type(e).__name__}: {e}"[:160])


def falsify(ctx, hints):
    rng = ctx.rng
    fails: list[Failure] = []
    counts = {"cells": 0, "systemize_models": 0, "steady_models": 0, "stacked_models": 0, "rejected": 0, "witnesses": 0}
    res = CorrResult()
    # 1. witnesses of the known candidate defects and of whatever obligation broke
    for spec in witness_specs():
        try:
            m = build_model(spec)
            info = model_info(m)
            arr, off = steady_data(m, info)
            mm = SimpleNamespace(spec=spec, m=m, info=info, rho=None, arr=arr, off=off)
            falsify_systemize(mm, fails, counts)
            counts["witnesses"] += 1
        except HarnessError:
            raise
        except Exception as e:  # noqa
            counts.setdefault("witness_errors", []).append(f"{type(e).__name__}: {e}"[:120])
    try:
        m = build_model(STEADY_WITNESS)
        info = model_info(m)
        arr, off = steady_data(m, info)
        falsify_steady(SimpleNamespace(spec=STEADY_WITNESS, m=m, info=info, rho=None, arr=arr, off=off), fails, counts)
        counts["witnesses"] += 1
    except HarnessError:
        raise
    except Exception as e:  # noqa
        counts.setdefault("witness_errors", []).append(f"{type(e).__name__}: {e}"[:120])
    # 2. random models
    n = ctx.scale(90, 2500)
    models = make_models(ctx, n, res, special_share=0.15)
    for mm in models:
        falsify_systemize(mm, fails, counts)
        if len(fails) > 40:
            break
    for mm in models[: ctx.scale(50, 1200)]:
        falsify_steady(mm, fails, counts)
    # steady plans fixing a subset of the levels and/or of the changes (asymmetric): the columns kept from the full
    # Jacobian [all levels | all changes] must be those of the unknowns [iterated levels | iterated changes]
    try:
        wm = build_model(STEADY_WITNESS)
        winfo = model_info(wm)
        warr, woff = steady_data(wm, winfo)
        wmm = SimpleNamespace(spec=STEADY_WITNESS, m=wm, info=winfo, rho=None, arr=warr, off=woff)
        for _ in range(ctx.scale(14, 120)):
            falsify_steady(wmm, fails, counts, plan_spec=gen_steady_plan_spec(rng, STEADY_WITNESS["xs"]))
    except HarnessError:
        raise
    except Exception as e:  # noqa
        counts.setdefault("witness_errors", []).append(f"{type(e).__name__}: {e}"[:120])
    for mm in models[: ctx.scale(60, 1200)]:
        if len(mm.spec["xs"]) + len(mm.spec["ys"]) >= 2:
            falsify_steady(mm, fails, counts, plan_spec=gen_steady_plan_spec(rng, mm.spec["xs"], mm.spec["ys"]))
    for mm in models[: ctx.scale(50, 1200)]:
        falsify_stacked(mm, rng, fails, counts, plan_spec="random" if rng.random() < 0.4 else None)
    operand_grid_checks(ctx, fails, counts)
    falsify_terminal(ctx, fails, counts)
    user_function_checks(ctx, fails, counts)
    falsify_evaluation_sessions(ctx, fails, counts)
    seen, uniq = set(), []
    for f_ in fails:
        if f_.key not in seen:
            seen.add(f_.key); uniq.append(f_)
    return uniq, counts


def replay(ctx, failure: dict):
    """re-run the recorded input: the matrices / Jacobians of that model against finite differences"""
    inp = failure.get("input") or {}
    src = inp.get("source")
    if not src:
        return None
    import irispie as ir
    fails: list[Failure] = []
    counts = {"cells": 0, "systemize_models": 0, "steady_models": 0, "stacked_models": 0, "rejected": 0}
    kw = {"context": user_context(inp["context_src"])} if inp.get("context_src") else {}
    with quiet():
        m = ir.Simultaneous.from_string(src, flat=inp.get("flat", False), **kw)
        m.assign(**{k: (tuple(v) if isinstance(v, list) else v) for k, v in inp["assign"].items()})
    info = model_info(m, opaque=True)
    arr, off = steady_data(m, info)
    xs = [n for n in inp["assign"] if n.startswith("x")]
    spec = {"xs": sorted(xs), "ps": [], "ys": [], "logs": [], "teqs": [], "meqs": [], "values": inp["assign"],
            "flat": inp.get("flat", False), "context_src": inp.get("context_src")}
    mm = SimpleNamespace(spec=spec, m=m, info=info, rho=None, arr=arr, off=off)
    # spec_source is only used for messages here
    global spec_source
    orig = spec_source
    spec_source = lambda s: src  # noqa
    try:
        key = failure.get("key", "")
        prefix = ""
        if key.startswith("user-function:") and (":steady:" in key or ":stacked:" in key):
            cut = key.index(":steady:") if ":steady:" in key else key.index(":stacked:")
            prefix, key = key[:cut + 1], key[cut + 1:]
        elif key.startswith("user-function:"):
            falsify_systemize(mm, fails, counts, key_prefix=key.rsplit(":", 2)[0])
            key = None
        if key is None:
            pass
        elif key.startswith("steady"):
            falsify_steady(mm, fails, counts, plan_spec=inp.get("steady_plan"))
        elif key.startswith("stacked"):
            if inp.get("terminal") == "first_order":
                try:
                    with quiet():
                        if not inp.get("solve_first"):
                            mm.m.steady()
                        mm.m.solve()
                except Exception:  # noqa
                    pass
            for _ in range(1 if inp.get("data_seed") is not None else 6):
                falsify_stacked(mm, ctx.rng, fails, counts, force_terminal=inp.get("terminal"),
                                plan_spec=inp.get("plan"), nper=inp.get("periods"),
                                point_shifts=inp.get("point_shifts"), data_seed=inp.get("data_seed"))
        else:
            falsify_systemize(mm, fails, counts)
    finally:
        spec_source = orig
    for f_ in fails:
        if prefix:
            f_.key = prefix + f_.key
    for f_ in fails:
        if f_.key == failure.get("key"):
            return f_
    return fails[0] if fails else None
