"""C12  Aggregation and disaggregation respect calendar membership, are consistent."""
from __future__ import annotations

import datetime as dt
import math

import numpy as np

from vf import core
from vf.core import CorrResult, Disagreement, Failure, coq_z, coq_list
from . import series_common as sc

ID = "C12"
PROPS = "props/C12.v"
GENERATED = []
CASE_DEPS = ["lib/CaseUtil.vo", "lib/FloatExt.vo", "model/Convert.vo", "model/ConvertDaily.vo"]
ALLOWED_AXIOMS = {
    "sig_forall_dec", "sig_not_dec", "functional_extensionality_dep", "classic",
    "ClassicalDedekindReals.sig_forall_dec", "ClassicalDedekindReals.sig_not_dec",
    "FunctionalExtensionality.functional_extensionality_dep", "Classical_Prop.classic",
}
TRUSTED = [
    "model/Convert.v is a hand-written model of series/_conversions.py for regular (yearly/half-yearly/quarterly/monthly) "
    "frequencies, tied by bit-exact correspondence; statistics.mean is exact-rational, the float model's sum/n agrees with it on "
    "the dyadic data the generator uses",
    "model/ConvertDaily.v is a hand-written functional model of _aggregate_daily_to_regular and _disaggregate_* with a DAILY "
    "target (day_start/day_end = to_daily(start/end), low_of_day = the regular period containing a day) over the proleptic "
    "Gregorian calendar of lib/Calendar.v; tied by bit-exact correspondence (series cases and calendar-function cases, years "
    "1..9999 only: the model does not reproduce datetime's range errors); the disaggregation model is a function of the day "
    "(value of the period containing it) rather than numpy repeat/cumsum, the correspondence run is what ties the two",
    "arip is covered by the falsifier (KKT conditions recomputed with numpy), not by the Coq model",
]
ASSUMPTIONS = [
    "round-trip theorems for mean are over a field (Coq reals); first/last/min/max round trips hold for every carrier",
]
MANIFEST = {
    "technique": "Coq proof of group membership / placement / round trips on the Series model (row_at refinement) for regular "
                 "and daily frequencies (proleptic Gregorian calendar), bit-exact PrimFloat correspondence; falsifier for arip",
    "level_text": "Theorems (props/C12.v): for regular frequencies and every series, the aggregated value of low period l is the "
                  "method applied to exactly the rows l*factor .. l*factor+factor-1 (= the high periods whose coarse period is l); a "
                  "missing member makes mean/sum/prod missing on carriers with absorbing missing values; first/last return the "
                  "first/last member; disaggregation places values at exactly j=0 / factor/2 / factor-1 / all positions; "
                  "aggregate(disaggregate flat) with first/last/min/max (any carrier) and mean (reals) "
                  "return the original map. DAILY: a day belongs to a monthly/quarterly/half-yearly/yearly period iff it lies between "
                  "the period's first and last day (month lengths, 4/100/400 leap rule), periods tile the days, daily->regular "
                  "aggregation applies the method to exactly the days of the period, regular->daily flat/first/middle/last place "
                  "values at exactly all days / first day / first day + ndays//2 / last day, and flat round trips with "
                  "first/last/min/max (any carrier) and mean (reals) return the original map. arip is decided by the falsifier only.",
    "level_note": "Trusted: Coq kernel + vm_compute, hand models, harness. Partial: arip constraints/optimality are not "
                  "Coq theorems yet (falsifier: KKT via numpy); first-first / last-last round trips are falsifier-only.",
}

REG = [1, 2, 4, 12]
_LEAP_CORPUS = [2000, 2100, 1900, 2020, 2400]
AGG = ["mean", "sum", "prod", "first", "last", "min", "max"]
AGG_K = ["AggMean", "AggSum", "AggProd", "AggFirst", "AggLast", "AggMin", "AggMax"]
DIS = ["flat", "first", "middle", "last"]
DIS_K = ["DisFlat", "DisFirst", "DisMiddle", "DisLast"]


def _freq_enum(f):
    from irispie import dates as d
    return d.Frequency(f)


def gen_case(rng):
    fs = rng.choice(REG)
    pool = [k / 8.0 for k in range(-24, 41)]
    s = sc.rand_series_spec(rng, freq=fs, pool=pool, maxlen=rng.choice([3, 8, 14, 30]), allow_empty=rng.random() < 0.3)
    if rng.random() < 0.55:
        ft = rng.choice([f for f in REG if f <= fs])
        factor = max(fs // ft, 1)
        select = None
        if rng.random() < 0.25:
            select = sorted(rng.sample(range(factor), rng.randint(1, min(3, factor))))
        return {"op": "agg", "method": rng.randrange(len(AGG)), "ft": ft, "select": select,
                "discard": rng.random() < 0.3, "s": s}
    ft = rng.choice([f for f in REG if f >= fs])
    return {"op": "dis", "method": rng.randrange(len(DIS)), "ft": ft, "s": s}


_DAILY_YEARS = [1900, 2000, 2100, 2400, 1999, 2004, 2023, 2024]


def _rand_day(rng):
    y = rng.choice(_DAILY_YEARS) if rng.random() < 0.6 else rng.randint(1850, 2150)
    m = rng.choice([1, 2, 2, 3, 6, 12, rng.randint(1, 12)])
    import calendar
    d = rng.choice([1, calendar.monthrange(y, m)[1], rng.randint(1, 28)])
    return dt.date(y, m, d).toordinal()


def gen_daily_case(rng):
    """daily -> regular aggregation or regular -> daily disaggregation (model/ConvertDaily.v)."""
    pool = [k / 8.0 for k in range(-24, 41)]
    nv = rng.choice([1, 1, 2])
    if rng.random() < 0.5:
        n = rng.choice([1, 5, 40, 100, 400])
        rows = [[(float("nan") if rng.random() < 0.04 else rng.choice(pool)) for _ in range(nv)] for _ in range(n)]
        for idx in (0, -1):
            if all(v != v for v in rows[idx]):
                rows[idx][0] = 1.0
        s = {"freq": 365, "start": _rand_day(rng), "nv": nv, "rows": rows}
        select = None
        if rng.random() < 0.25:
            select = sorted(rng.sample(range(28), rng.randint(1, 3)))
        return {"op": "dagg", "method": rng.randrange(len(AGG)), "ft": rng.choice(REG), "select": select,
                "discard": rng.random() < 0.3, "s": s}
    fs = rng.choice(REG)
    y = rng.choice(_DAILY_YEARS) if rng.random() < 0.6 else rng.randint(1850, 2150)
    n = rng.randint(1, 2 if fs == 1 else 4)
    rows = [[(float("nan") if rng.random() < 0.15 else rng.choice(pool)) for _ in range(nv)] for _ in range(n)]
    for idx in (0, -1):
        if all(v != v for v in rows[idx]):
            rows[idx][0] = 1.0
    s = {"freq": fs, "start": y * fs + rng.randint(0, fs - 1), "nv": nv, "rows": rows}
    return {"op": "ddis", "method": rng.randrange(len(DIS)), "ft": 365, "s": s}


def gen_calendar_cases(rng, n):
    """(coq term, expected integer): to_daily(start/end) of a regular period and the regular period containing a day."""
    from irispie import dates as D
    out = []
    for _ in range(n):
        f = rng.choice(REG)
        y = rng.choice(_DAILY_YEARS) if rng.random() < 0.4 else rng.randint(1, 9999)
        t = y * f + rng.randint(0, f - 1)
        p = sc.mk_period(f, t)
        k = rng.randrange(3)
        if k == 0:
            out.append((f"day_start {coq_z(f)} {coq_z(t)}", int(p.to_daily(position="start").serial)))
        elif k == 1:
            out.append((f"day_end {coq_z(f)} {coq_z(t)}", int(p.to_daily(position="end").serial)))
        else:
            a = int(p.to_daily(position="start").serial); b = int(p.to_daily(position="end").serial)
            nday = rng.choice([a, b, rng.randint(a, b)])
            got = sc.mk_period(365, nday).convert(_freq_enum(f))
            out.append((f"low_of_day {coq_z(f)} {coq_z(nday)}", int(got.serial)))
    return out


def run_impl(case):
    import irispie as ir
    try:
        s = sc.mk_series(case["s"])
        if case["op"] in ("agg", "dagg"):
            s.aggregate(_freq_enum(case["ft"]), method=AGG[case["method"]], discard_missing=case["discard"],
                        select=case["select"])
        else:
            s.disaggregate(_freq_enum(case["ft"]), method=DIS[case["method"]])
        return {"ok": sc.observe(s)}
    except Exception as e:  # noqa
        return {"err": 1, "exc": f"{type(e).__name__}: {e}"[:160]}


def coq_case(case):
    s = sc.coq_series(case["s"])
    if case["op"] == "dagg":
        sel = "None" if case["select"] is None else "(Some " + coq_list([f"{i}%nat" for i in case["select"]]) + ")"
        return (f"aggregate_daily FA (FX tb) {AGG_K[case['method']]} {sel} {core.coq_bool(case['discard'])} "
                f"{coq_z(case['ft'])} {s}")
    if case["op"] == "ddis":
        return f"disaggregate_daily FA {DIS_K[case['method']]} {s}"
    if case["op"] == "agg":
        sel = "None" if case["select"] is None else "(Some " + coq_list([f"{i}%nat" for i in case["select"]]) + ")"
        return (f"aggregate_regular FA (FX tb) {AGG_K[case['method']]} {sel} {core.coq_bool(case['discard'])} "
                f"{coq_z(case['ft'])} {s}")
    return f"disaggregate_regular FA {DIS_K[case['method']]} {coq_z(case['ft'])} {s}"


HEADER = """From Coq Require Import ZArith List Bool PrimFloat.
From Verif Require Import lib.Arith lib.Calendar lib.CaseUtil lib.FloatExt model.Series model.SeriesOps model.Convert model.ConvertDaily.
Import ListNotations.
Open Scope Z_scope.
Set Printing Width 1000000.
Definition tb : ftables := {| t_ln := []; t_exp := []; t_pow := [] |}.
Notation FA := (FArith tb).
"""


def shard_text(cases, outs):
    body = ";\n".join(f"  ({coq_case(c)},\n   {sc.coq_res_series(o)})" for c, o in zip(cases, outs))
    return (HEADER + "Definition cases : list (res (series FA) * res (series FA)) := [\n" + body + "\n].\n"
            "Eval vm_compute in (failing (res_eqb (series_eqb tb)) cases 0).\n")


def correspondence(ctx) -> CorrResult:
    rng = ctx.rng
    n = ctx.scale(800, 30000)
    per = 200
    cases = [gen_case(rng) for _ in range(n)]
    n_daily = ctx.scale(240, 6000)
    daily_cases = [gen_daily_case(rng) for _ in range(n_daily)]
    n_cal = ctx.scale(600, 20000)
    cal = gen_calendar_cases(rng, n_cal)
    cases = cases + daily_cases
    outs = [run_impl(c) for c in cases]
    n = len(cases)
    res = CorrResult(evaluations=n + n_cal)
    dist = {"op": {}, "method": {}, "pair": {}, "errors": {}, "select": 0, "discard": 0}
    sig = set()
    for c, o in zip(cases, outs):
        dist["op"][c["op"]] = dist["op"].get(c["op"], 0) + 1
        nm = (AGG if c["op"] in ("agg", "dagg") else DIS)[c["method"]]
        dist["method"][nm] = dist["method"].get(nm, 0) + 1
        pr = f"{c['s']['freq']}->{c['ft']}"
        dist["pair"][pr] = dist["pair"].get(pr, 0) + 1
        dist["select"] += c.get("select") is not None
        dist["discard"] += bool(c.get("discard"))
        if "err" in o:
            k = o["exc"].split(":")[0]
            dist["errors"][k] = dist["errors"].get(k, 0) + 1
        elif o["ok"]["start"] is not None and len(o["ok"]["rows"]) >= 2 and c["s"]["freq"] != c["ft"]:
            sig.add(repr(c))
    res.distinct_nontrivial = len(sig)
    res.distribution = dist
    res.rule = ("one random series of a regular frequency (1-3 variants, missing values, dyadic data, sometimes empty) and one "
                "aggregate (7 methods, select, discard_missing) or disaggregate (flat/first/middle/last) call to a regular target; "
                "DAILY: a daily series of 1..400 days starting at a month start/end/inner day of a centurial, leap or ordinary year "
                "aggregated to a regular target (7 methods, select within 0..27, discard_missing), or a regular series of 1..4 "
                "periods disaggregated to DAILY (4 methods); calendar cases: to_daily(start/end) of a regular period of years "
                "1..9999 and the regular period containing a day (Period.convert); "
                "non-trivial = frequencies differ and the result has at least two periods; distinct by case text")
    res.samples = [{"case": c, "impl": o} for c, o in list(zip(cases, outs))[:3]]
    n_reg = n - n_daily
    shards = [(cases[i:i + per], outs[i:i + per]) for i in range(0, n_reg, per)]
    shards += [(cases[i:i + 40], outs[i:i + 40]) for i in range(n_reg, n, 40)]       # daily cases are long: small shards
    cal_shards = [cal[i:i + 2000] for i in range(0, n_cal, 2000)]
    cal_texts = [HEADER + "Definition cases : list (Z * Z) := [\n" + ";\n".join(f"  ({a}, {coq_z(b)})" for a, b in sh)
                 + "\n].\nEval vm_compute in (failing Z.eqb cases 0).\n" for sh in cal_shards]
    results = core.run_cases(ctx, [shard_text(a, b) for a, b in shards] + cal_texts)
    res.shards = len(shards) + len(cal_shards)
    dist["calendar_cases"] = n_cal
    for k, (ok, out) in enumerate(results[len(shards):]):
        if not ok:
            res.disagreements.append(Disagreement(f"calendar shard {k} does not evaluate", None, out[-600:], None)); continue
        bodies = core.parse_eval_lists(out)
        if len(bodies) != 1:
            res.disagreements.append(Disagreement(f"calendar shard {k}: unparsable output", None, out[-600:], None)); continue
        for i in core.parse_nat_list(bodies[0]):
            res.disagreements.append(Disagreement("calendar:" + cal_shards[k][i][0].split()[0], cal_shards[k][i][0],
                                                  "model value differs", cal_shards[k][i][1]))
    for k, (ok, out) in enumerate(results[:len(shards)]):
        cs, os_ = shards[k]
        if not ok:
            res.disagreements.append(Disagreement(f"cases shard {k} does not evaluate", None, out[-600:], None)); continue
        bodies = core.parse_eval_lists(out)
        if len(bodies) != 1:
            res.disagreements.append(Disagreement(f"cases shard {k}: unparsable output", None, out[-600:], None)); continue
        for i in core.parse_nat_list(bodies[0]):
            res.disagreements.append(Disagreement(f"{cs[i]['op']}:{(AGG if cs[i]['op'] in ('agg', 'dagg') else DIS)[cs[i]['method']]}",
                                                  cs[i], "model result differs", os_[i]))
    return res


# ------------------------------------------------------------------ falsifier

def _close(a, b, tol=1e-9):
    a = np.asarray(a, dtype=float); b = np.asarray(b, dtype=float)
    if a.shape != b.shape:
        return False
    both = np.isnan(a) & np.isnan(b)
    with np.errstate(all="ignore"):
        ok = np.abs(a - b) <= tol * (1 + np.abs(b))
    return bool(np.all(ok | both))


def _month_of(f, seg):
    return (seg - 1) * (12 // f) + 1


def _low_of(fs, ft, h):
    """(year, segment) of the target-frequency period containing high period with serial h."""
    if fs == 365:
        d = dt.date.fromordinal(h); y, m = d.year, d.month
    else:
        y, m = h // fs, _month_of(fs, h % fs + 1)
    return (y, 1 + (m - 1) // (12 // ft))


def _members(fs, ft, y, seg):
    """serials of all high-frequency periods inside low period (y, seg)."""
    m0 = _month_of(ft, seg); m1 = m0 + 12 // ft - 1
    if fs == 365:
        import calendar
        a = dt.date(y, m0, 1).toordinal(); b = dt.date(y, m1, calendar.monthrange(y, m1)[1]).toordinal()
        return list(range(a, b + 1))
    return [y * fs + s_ - 1 for s_ in range(1, fs + 1) if m0 <= _month_of(fs, s_) <= m1]


def _np_method(name, w, discard):
    w = np.asarray(w, dtype=float)
    if discard:
        w = w[~np.isnan(w)]
    if w.size == 0:
        return float("nan")
    with np.errstate(all="ignore"):
        return {"mean": lambda: float(np.mean(w)), "sum": lambda: float(np.sum(w)), "prod": lambda: float(np.prod(w)),
                "first": lambda: float(w[0]), "last": lambda: float(w[-1])}[name]()


def falsify(ctx, hints):
    import irispie as ir
    from irispie import dates as D
    rng = ctx.rng
    fails = []
    info = {"membership": 0, "placement": 0, "roundtrip": 0, "arip": 0, "select": 0}
    n = ctx.scale(24, 1200)

    def add(key, what, inp, obs=None, req=None, repro=""):
        fails.append(Failure(key, what, inp, obs, req, repro))

    for it in range(n):
        fs = rng.choice([2, 4, 12, 365])
        nv = rng.choice([1, 2])
        length = rng.randint(2, 30) if fs != 365 else rng.randint(20, 260)
        spec = sc.rand_series_spec(rng, freq=fs, nv=nv, maxlen=length, allow_empty=False, p_nan=0.08)
        if fs == 365:
            spec["start"] = dt.date(rng.randint(1999, 2024), rng.randint(1, 12), rng.randint(1, 28)).toordinal()
            if it < len(_LEAP_CORPUS):          # calendar boundary corpus runs first: centurial and ordinary leap years
                spec["start"] = dt.date(_LEAP_CORPUS[it], 1, rng.randint(5, 25)).toordinal(); length = max(length, 100)
            spec["rows"] = [[(float("nan") if rng.random() < 0.03 else rng.randint(-40, 40) / 4.0) for _ in range(nv)] for _ in range(length)]
            spec["rows"][0][0] = 1.0; spec["rows"][-1][0] = 2.0
        x = sc.mk_series(spec)
        ft = rng.choice([f for f in REG if f < fs])
        inp = {"series": {**spec, "rows": spec["rows"][:6] + (["..."] if len(spec["rows"]) > 6 else [])}, "target": ft}
        full = {"series": spec, "target": ft}
        # 1. membership + missing rule + first/last (calendar membership computed with CPython datetime only)
        vals = {}
        for k_, row in enumerate(np.asarray(x.data, dtype=float)):
            vals[spec["start"] + k_] = row
        lows = sorted({_low_of(fs, ft, h) for h in vals})
        for name in ("mean", "sum", "prod", "first", "last"):
            for discard in (False, True):
                try:
                    y = ir.aggregate(x, _freq_enum(ft), method=name, discard_missing=discard)
                    info["membership"] += 1
                    bad = False
                    for (yy_, seg) in lows:
                        lp = D.Period.from_year_segment(_freq_enum(ft), yy_, seg)
                        got = y.get_data(lp)[0]
                        mem = _members(fs, ft, yy_, seg)
                        for c in range(nv):
                            col = [vals[h][c] if h in vals else float("nan") for h in mem]
                            want = _np_method(name, col, discard)
                            if not _close(got[c], want, 1e-9):
                                add(f"membership:{name}:{fs}->{ft}" + (":discard" if discard else ""),
                                    f"aggregate {name} of {lp} is not the method applied to exactly the periods inside it",
                                    {**full, "low_period": str(lp), "variant": c, "discard": discard}, float(got[c]), want,
                                    f"irispie.aggregate(x, {ft}, method='{name}', discard_missing={discard})")
                                bad = True
                                break
                        if bad:
                            break
                except Exception as e:  # noqa
                    add(f"aggregate:{name}:raises", f"aggregate raises {type(e).__name__}: {e}"[:200], inp)
        # 1b. select with a list of integer positions
        try:
            factor = fs // ft if fs != 365 else None
            if factor and factor >= 2:
                sel = sorted(rng.sample(range(factor), rng.randint(1, factor - 1)))
                info["select"] += 1
                y = ir.aggregate(x, _freq_enum(ft), method="sum", select=sel)
                y0 = ir.aggregate(x, _freq_enum(ft), method="first", select=[sel[0]])
                f0 = ir.aggregate(x, _freq_enum(ft), method="sum", select=None)
            if factor and factor >= 2:
                # select picks calendar positions inside the low period, THEN missing values are discarded
                for name in ("first", "sum", "last"):
                    for discard in (False, True):
                        y = ir.aggregate(x, _freq_enum(ft), method=name, select=sel, discard_missing=discard)
                        bad = False
                        for (yy_, seg) in lows:
                            lp = D.Period.from_year_segment(_freq_enum(ft), yy_, seg)
                            mem = _members(fs, ft, yy_, seg)
                            got = y.get_data(lp)[0]
                            for c in range(nv):
                                col = [vals[h][c] if h in vals else float("nan") for h in mem]
                                want = _np_method(name, [col[i] for i in sel], discard)
                                if not _close(got[c], want, 1e-9):
                                    add(f"select:{name}" + (":discard" if discard else ""),
                                        f"aggregate {name} with select={sel}, discard_missing={discard} of {lp} is not the method applied to the "
                                        "selected calendar positions of the period",
                                        {**full, "select": sel, "low_period": str(lp), "variant": c}, float(got[c]), want,
                                        f"irispie.aggregate(x, {ft}, method='{name}', select={sel}, discard_missing={discard})")
                                    bad = True
                                    break
                            if bad:
                                break
        except Exception as e:  # noqa
            add("aggregate:select:raises", f"aggregate(select=<list of positions>) raises {type(e).__name__}: {e}"[:200],
                {**inp, "select": sel}, repr(e), "the method applied to the selected positions",
                f"irispie.aggregate(x, {ft}, method='sum', select={sel})")
        # 2./3. placement and round trips (coarse -> fine -> coarse)
        try:
            lo_spec = sc.rand_series_spec(rng, freq=ft, nv=nv, maxlen=8, allow_empty=False, p_nan=0.1)
            if it < len(_LEAP_CORPUS):
                lo_spec["start"] = _LEAP_CORPUS[it] * ft
            lo = sc.mk_series(lo_spec)
            for fh in [f for f in REG + [365] if f > ft]:
                if fh == 365 and len(lo_spec["rows"]) > 3:      # keep daily spans short (speed)
                    lo_spec = {**lo_spec, "rows": lo_spec["rows"][:3]}
                    if all(v != v for v in lo_spec["rows"][-1]):
                        lo_spec["rows"][-1] = [1.5] * nv
                    lo = sc.mk_series(lo_spec)
                linp = {"series": lo_spec, "target": fh}
                for dm, ams in (("flat", ("mean", "first", "last", "min", "max")), ("first", ("first",)), ("last", ("last",))):
                    hi = ir.disaggregate(lo, _freq_enum(fh), method=dm)
                    info["placement"] += 1
                    # placement: every written value sits in a high period inside its own low period
                    for p, row in zip(hi.periods, np.asarray(hi.data, dtype=float)):
                        lp = p.convert(_freq_enum(ft), position="start")
                        src = lo.get_data(lp)[0]
                        for c in range(nv):
                            if row[c] == row[c] and not (src[c] == row[c]):
                                add(f"placement:{dm}:{ft}->{fh}", f"disaggregate {dm}: the value at {p} is not the value of the low period containing it",
                                    {**linp, "high_period": str(p)}, float(row[c]), float(src[c]),
                                    f"irispie.disaggregate(x, {fh}, method='{dm}')")
                                raise StopIteration
                    for am in ams:
                        back = ir.aggregate(hi, _freq_enum(ft), method=am)
                        info["roundtrip"] += 1
                        sp = ir.Span(lo.start, lo.end)
                        if not _close(back.get_data(sp), lo.get_data(sp), 1e-9) or back.start != lo.start or back.end != lo.end:
                            add(f"roundtrip:{dm}:{am}:{ft}->{fh}", f"aggregate({am}) of disaggregate({dm}) does not return the original series",
                                linp, back.get_data(sp).tolist(), lo.get_data(sp).tolist(),
                                f"irispie.aggregate(irispie.disaggregate(x, {fh}, '{dm}'), {ft}, '{am}')")
        except StopIteration:
            pass
        except Exception as e:  # noqa
            add(f"disaggregate:raises:{type(e).__name__}", f"disaggregate/aggregate raises {type(e).__name__}: {e}"[:200], {"target": "?"})
        # 4. arip: constraints, targets, optimality
        try:
            lo_spec = sc.rand_series_spec(rng, freq=rng.choice([1, 4]), nv=1, maxlen=7, allow_empty=False, p_nan=0.0, positive=True)
            lo_spec["rows"] = [[abs(v[0]) + 1.0] for v in lo_spec["rows"]]
            if len(lo_spec["rows"]) >= 4 and rng.random() < 0.5:
                lo_spec["rows"][rng.randint(1, len(lo_spec["rows"]) - 2)] = [float("nan")]       # interior gap
            if len(lo_spec["rows"]) >= 2:
                lo = sc.mk_series(lo_spec)
                fl = lo_spec["freq"]
                fh = rng.choice([f for f in (4, 12) if f > fl])
                form = rng.choice(["rate", "diff"]); aggn = rng.choice(["sum", "mean", "first", "last"])
                hi = ir.disaggregate(lo, _freq_enum(fh), method="arip", model=(form, aggn))
                info["arip"] += 1
                xh = np.asarray(hi.data, dtype=float)[:, 0]
                nw = fh // fl; nl = len(lo_spec["rows"])
                low = np.array([r[0] for r in lo_spec["rows"]])
                vec = {"sum": [1] * nw, "mean": [1 / nw] * nw, "first": [1] + [0] * (nw - 1), "last": [0] * (nw - 1) + [1]}[aggn]
                fin = np.where(np.isfinite(low))[0]
                Aagg = np.zeros((len(fin), nl * nw))
                for r_, i in enumerate(fin):
                    Aagg[r_, i * nw:(i + 1) * nw] = vec
                low_all = low; low = low[fin]
                ainp = {"series": lo_spec, "target": fh, "model": [form, aggn]}
                if xh.shape[0] != nl * nw or not _close(Aagg @ xh, low, 1e-7):
                    add(f"arip:constraints:{form}:{aggn}", "arip output does not satisfy its aggregation constraints", ainp,
                        (Aagg @ xh).tolist() if xh.shape[0] == nl * nw else list(xh.shape), low.tolist())
                else:
                    dist = int(fin[-1] - fin[0])      # periods between the first and the last observation
                    if form == "rate":
                        rho = float((low[-1] / low[0]) ** (1 / dist)) ** (fl / fh); const = 0.0
                        sig = rho ** np.arange(nl * nw)
                    else:
                        rho = 1.0; const = float((low[-1] - low[0]) / dist) * (fl / fh); sig = np.ones(nl * nw)
                    K = np.zeros((nl * nw - 1, nl * nw)); cc = np.zeros(nl * nw - 1)
                    for i in range(nl * nw - 1):
                        K[i, i + 1] = 1 / sig[i + 1]; K[i, i] = -rho / sig[i + 1]; cc[i] = const / sig[i + 1]
                    g = K.T @ (K @ xh - cc)
                    import scipy.linalg as sl
                    N = sl.null_space(Aagg)
                    r = np.abs(N.T @ g).max() if N.size else 0.0
                    scale = 1 + np.abs(g).max()
                    if r > 1e-6 * scale:
                        add(f"arip:optimality:{form}:{aggn}",
                            "arip output is not the minimiser of the smoothness criterion subject to its aggregation constraints "
                            "(the criterion's gradient is not orthogonal to the feasible directions)",
                            ainp, float(r), 0.0, f"irispie.disaggregate(x, {fh}, method='arip', model=('{form}','{aggn}'))")
        except Exception as e:  # noqa
            add(f"arip:raises:{type(e).__name__}", f"arip raises {type(e).__name__}: {e}"[:200], {"note": "arip"})
        # 4a. arip with high-frequency targets that cover only PART of some low-frequency periods: every aggregation
        #     constraint and every target value must hold exactly
        try:
            fl = rng.choice([1, 4]); fh = rng.choice([f for f in (4, 12) if f > fl]); nw = fh // fl
            nl = rng.randint(2, 5)
            lo_spec = {"freq": fl, "start": (2000 + rng.randint(0, 20)) * fl + rng.randint(0, fl - 1), "nv": 1,
                       "rows": [[float(rng.randint(20, 80))] for _ in range(nl)]}
            lo = sc.mk_series(lo_spec)
            aggn = rng.choice(["sum", "mean"]); form = rng.choice(["diff", "rate"])
            hs = lo.start.convert(_freq_enum(fh), position="start")
            tgt_rows = [[float("nan")] for _ in range(nl * nw)]
            tcells = {}
            for i in range(nl):
                if rng.random() < 0.6:
                    for j in rng.sample(range(nw), rng.randint(1, nw - 1)):       # never the whole period
                        v = lo_spec["rows"][i][0] / (nw if aggn == "sum" else 1) * rng.uniform(0.8, 1.2)
                        tgt_rows[i * nw + j] = [round(v, 3)]; tcells[i * nw + j] = round(v, 3)
            if tcells:
                tgt = sc.mk_series({"freq": fh, "start": int(hs.serial), "nv": 1, "rows": tgt_rows})
                hi = ir.disaggregate(lo, _freq_enum(fh), method="arip", model=(form, aggn), target=tgt)
                xh = np.asarray(hi.get_data(ir.Span(hs, hs + nl * nw - 1)), dtype=float)[:, 0]
                info["arip"] += 1
                vec = [1] * nw if aggn == "sum" else [1 / nw] * nw
                agg_back = np.array([float(np.dot(vec, xh[i * nw:(i + 1) * nw])) for i in range(nl)])
                low = np.array([r[0] for r in lo_spec["rows"]])
                tinp = {"series": lo_spec, "target_freq": fh, "model": [form, aggn], "targets": {str(k): v for k, v in tcells.items()}}
                if not _close(agg_back, low, 1e-7):
                    add(f"arip:targets:aggregation:{aggn}", "arip with partial high-frequency targets does not satisfy its aggregation constraints",
                        tinp, agg_back.tolist(), low.tolist(), "irispie.disaggregate(x, fh, method='arip', model=..., target=t)")
                got_t = np.array([xh[k] for k in tcells]); want_t = np.array(list(tcells.values()))
                if not _close(got_t, want_t, 1e-7):
                    add(f"arip:targets:hit:{aggn}", "arip does not hit its high-frequency target values exactly", tinp, got_t.tolist(), want_t.tolist())
        except Exception as e:  # noqa
            add(f"arip:targets:raises:{type(e).__name__}", f"arip with targets raises {type(e).__name__}: {e}"[:200], {"note": "arip targets"})
        # 4d. arip on a MULTI-VARIANT series whose variants have their missing observations at different periods (same and
        #     different counts): every variant must satisfy its own aggregation constraints on its own observed periods
        try:
            fl = rng.choice([1, 4]); fh = rng.choice([f for f in (4, 12) if f > fl]); nw = fh // fl
            nl = rng.randint(4, 7); nv = rng.randint(2, 4)
            rows = [[float(rng.randint(20, 80)) for _ in range(nv)] for _ in range(nl)]
            n_gap = rng.randint(1, 2)
            for v in range(nv):
                if v == 0 and rng.random() < 0.3:
                    continue                                   # a complete variant next to gappy ones
                k = n_gap if rng.random() < 0.75 else rng.randint(0, 2)     # mostly the SAME number of gaps, elsewhere
                for i in rng.sample(range(1, nl - 1), min(k, nl - 2)):
                    rows[i][v] = float("nan")
            lo_spec = {"freq": fl, "start": (2000 + rng.randint(0, 20)) * fl + rng.randint(0, fl - 1), "nv": nv, "rows": rows}
            lo = sc.mk_series(lo_spec)
            aggn = rng.choice(["sum", "mean", "first", "last"]); form = rng.choice(["diff", "rate"])
            hs = lo.start.convert(_freq_enum(fh), position="start")
            hi = ir.disaggregate(lo, _freq_enum(fh), method="arip", model=(form, aggn))
            xh = np.asarray(hi.get_data(ir.Span(hs, hs + nl * nw - 1)), dtype=float)
            info["arip"] += 1
            vec = {"sum": [1] * nw, "mean": [1 / nw] * nw, "first": [1] + [0] * (nw - 1), "last": [0] * (nw - 1) + [1]}[aggn]
            vinp = {"series": lo_spec, "target": fh, "model": [form, aggn]}
            for v in range(nv):
                low = np.array([r[v] for r in rows]); fin = np.where(np.isfinite(low))[0]
                back = np.array([float(np.dot(vec, xh[i * nw:(i + 1) * nw, v])) for i in fin])
                if xh.shape[1] != nv or not _close(back, low[fin], 1e-7):
                    add(f"arip:variants:constraints:{aggn}",
                        f"arip on a multi-variant series: variant {v} does not satisfy its aggregation constraints on its own observed periods",
                        dict(vinp, variant=v), back.tolist(), low[fin].tolist(),
                        f"irispie.disaggregate(x, {fh}, method='arip', model=('{form}','{aggn}'))  # x has {nv} variants")
                    break
                one = sc.mk_series({"freq": fl, "start": lo_spec["start"], "nv": 1, "rows": [[r[v]] for r in rows]})
                alone = np.asarray(ir.disaggregate(one, _freq_enum(fh), method="arip", model=(form, aggn)).get_data(
                    ir.Span(hs, hs + nl * nw - 1)), dtype=float)[:, 0]
                if not _close(alone, xh[:, v], 1e-7):
                    add(f"arip:variants:pointwise:{aggn}",
                        f"arip on a multi-variant series: variant {v} differs from disaggregating that variant on its own (both are "
                        "claimed to be THE constrained minimiser)", dict(vinp, variant=v), xh[:, v].tolist(), alone.tolist())
                    break
        except Exception as e:  # noqa
            add(f"arip:variants:raises:{type(e).__name__}", f"arip on a multi-variant series raises {type(e).__name__}: {e}"[:200], {"note": "arip variants"})
        # 4c. exact documented positions of first / middle / last for a DAILY target (month lengths, leap years)
        try:
            fl = rng.choice([1, 4, 12]); nl = rng.randint(3, 6)
            y0 = rng.choice([1999, 2003, 2019, 2023])
            lo_spec = {"freq": fl, "start": y0 * fl + rng.randint(0, fl - 1), "nv": 1, "rows": [[float(10 + i)] for i in range(nl)]}
            lo = sc.mk_series(lo_spec)
            for dm in ("first", "middle", "last"):
                hi = ir.disaggregate(lo, _freq_enum(365), method=dm)
                info["placement"] += 1
                for i, t in enumerate(lo.periods):
                    y_, s_ = t.serial // fl, t.serial % fl + 1
                    mem = _members(365, fl, y_, s_)
                    pos = {"first": 0, "middle": len(mem) // 2, "last": len(mem) - 1}[dm]
                    col = np.asarray(hi.get_data([sc.mk_period(365, h) for h in mem]), dtype=float)[:, 0]
                    where = [j for j, v in enumerate(col) if v == v]
                    if where != [pos] or col[pos] != lo_spec["rows"][i][0]:
                        add(f"placement:{dm}:exact:{fl}->365", f"disaggregate {dm} to daily does not place the value of {t} at exactly the documented day of that period",
                            {"series": lo_spec, "low_period": str(t), "days_in_period": len(mem)}, where, [pos],
                            f"irispie.disaggregate(x, DAILY, method='{dm}')")
                        raise StopIteration
        except StopIteration:
            pass
        except Exception as e:  # noqa
            add(f"placement:exact:raises:{type(e).__name__}", f"raises {type(e).__name__}: {e}"[:200], {"note": "daily placement"})
        # 4b. arip to a DAILY target: aggregating back over calendar periods must return the input
        if it % 10 == 0:
            try:
                lo_spec = {"freq": 4, "start": 4 * rng.randint(2000, 2020) + rng.randint(0, 3), "nv": 1,
                           "rows": [[float(rng.randint(4, 40))] for _ in range(rng.randint(2, 4))]}
                lo = sc.mk_series(lo_spec)
                aggn = rng.choice(["sum", "mean"])
                hi = ir.disaggregate(lo, _freq_enum(365), method="arip", model=("diff", aggn))
                back = ir.aggregate(hi, _freq_enum(4), method=aggn)
                sp = ir.Span(lo.start, lo.end)
                info["arip"] += 1
                if not _close(back.get_data(sp), lo.get_data(sp), 1e-6):
                    add("arip:daily-target:constraints",
                        "arip to DAILY frequency does not satisfy its aggregation constraints over calendar periods "
                        "(it assumes 365//f days in every period)", {"series": lo_spec, "target": 365, "model": ["diff", aggn]},
                        back.get_data(sp).ravel().tolist(), lo.get_data(sp).ravel().tolist(),
                        f"irispie.aggregate(irispie.disaggregate(x, DAILY, method='arip', model=('diff','{aggn}')), QUARTERLY, '{aggn}')")
            except Exception as e:  # noqa
                add("arip:daily-target:raises", f"arip to DAILY raises {type(e).__name__}: {e}"[:200], {"note": "arip daily"})
        if len(fails) > 60:
            break
    seen, uniq = set(), []
    for f_ in fails:
        if f_.key not in seen:
            seen.add(f_.key); uniq.append(f_)
    return uniq, info


def replay(ctx, failure):
    fs, _ = falsify(ctx, {})
    for f in fs:
        if f.key == failure["key"]:
            return f
    return None
