"""C04  Model source text is translated to equations without changing their meaning."""
from __future__ import annotations

import ast
import math
import re

import numpy as np

from vf import core
from vf.core import CorrResult, Disagreement, Failure, coq_z, coq_list, coq_string, coq_bool
from translator import pseudo as tr
from translator import makers as trm

ID = "C04"
PROPS = "props/C04.v"
GENERATED = [tr.OUT, trm.OUT]
CASE_DEPS = ["model/Lang.vo", "model/Makers.vo"]
ALLOWED_AXIOMS = {
    "sig_forall_dec", "sig_not_dec", "functional_extensionality_dep", "classic",
    "ClassicalDedekindReals.sig_forall_dec", "ClassicalDedekindReals.sig_not_dec",
    "FunctionalExtensionality.functional_extensionality_dep", "Classical_Prop.classic",
}
TRUSTED = [
    "translator/pseudo.py (the _pseudo_* string builders, _pseudo_mov, _PSEUDOFUNC_RESOLUTION, the residual template, "
    "kind/entry order tables -> gen/PseudoGen.v)",
    "the renderer of harness/C04.py (structured model -> source text: it prints exactly the parentheses that are nodes of "
    "the tree) and Python's ast module (xtring -> tree)",
    "character-level regular expressions, the parsimonious PEG grammars and Jinja are glue: exercised by the "
    "correspondence, not modelled",
    "translator/makers.py (statement shapes of makers.make_function / remake_function / _prepare_globals, "
    "aldi.adaptations.add_function_adaptations_to_context, PlainEquator._create_function; module-level state of makers.py "
    "and adaptations.py enumerated, anything new fails closed -> gen/MakersGen.v); Python's exec and function objects are a "
    "black box of model/Makers.v (Section variable exec_def)",
]
ASSUMPTIONS = [
    "pseudofunction arguments have at most one level of parentheses, no commas, no nested pseudofunctions and no "
    "$substitution$ references (the regex does not expand anything else; open interpretation question, DESIGN 7)",
    "!for control names in scope are prefix-free (textual replacement then equals replacement of control tokens)",
    "descriptions do not contain macro syntax (<...>, {{...}}, name{k}, f(...), !keyword, backtick): the preparser "
    "rewrites those inside quoted descriptions as well",
    "nested powers are written with parentheses; no white space between a function name and its parenthesis",
    "semantic theorems are over a commutative ring with division x/y = x*inv y (no rounding)",
]
MANIFEST = {
    "technique": "Coq model of the model-source compiler one level above the text (token lists / syntax trees): pseudofunction "
                 "string templates, default shifts, the residual template and the kind tables regenerated from the source on "
                 "every run; semantic-preservation theorems over an abstract commutative ring with division; exact AST "
                 "correspondence against Simultaneous.from_string (xtrings parsed by Python's ast)",
    "level_text": "Theorems (props/C04.v), for all expression trees, environments, dates, shifts, nesting depths: shifting all "
                  "names denotes the expression at the shifted date; the expansion of every pseudofunction, built from the string "
                  "templates of _pseudo_* regenerated on every run, denotes its documented formula (diff, diff_log/difflog, pct, "
                  "roc, shift, mov_sum/movsum = sum of n terms, mov_avg, mov_prod, default shifts -1/-4) and every template is "
                  "delimited by its own parentheses; the compiled equation -(lhs)+rhs denotes rhs - lhs of the equation as written "
                  "after macro expansion on arbitrary data (transition shocks read as shock + anticipated shock); "
                  "_resolve_sequence on every well-nested !for/!if/!else/!end sequence equals the expansion (loop = concatenation "
                  "over tokens, conditional = selected branch) with bounded fuel, and the un-repaired !else search is refuted; "
                  "sources that differ by unrolling loops/conditionals or only in style ({k}/[k], ^/**, =/:=, keyword spellings, "
                  "<x>/{{x}}) compile to the same model; the quantities are exactly the declared ones (+ ant_/std_) and log status "
                  "follows !log-variables / !all-but.  Tie: exact equality of the model's compile (vm_compute) with the quantities "
                  "(name, kind, description, log status, id order) and the dynamic/steady xtrings of Simultaneous.from_string on "
                  "structured random models rendered with random syntactic alternatives, comments, continuations, loops, "
                  "conditionals, substitutions, context values; half of the models are compiled as SESSIONS in one Python "
                  "process (renderings, then variants sharing the equation text but with reordered declarations, extra names "
                  "declared first, another context for the identical source text, another substitution body, another kind), so "
                  "that state leaking from one compilation into the next is seen.  Compiled functions (model/Makers.v, shapes "
                  "and module-level state of makers.py / aldi/adaptations.py / PlainEquator._create_function regenerated on every "
                  "run, a new module-level table fails closed): in every session of make_function calls each call returns the "
                  "function, text and globals determined by its own (text, context); a user function name resolves to the object "
                  "of that call's context (adaptations win); remake_function gives the same function; a table keyed by the text "
                  "alone is refuted.  Tie: sequences of make_function / remake_function calls sharing texts and context keys, "
                  "observed after the whole session (text, globals entries by object identity), equal the model exactly.",
    "level_note": "partial: the character-level regular expressions, the two PEG grammars (parsimonious), Jinja, white space and "
                  "comments are glue exercised by the correspondence, not modelled; the renderer of the harness and Python's ast "
                  "are trusted for the text <-> tree reading; semantic theorems are over a commutative ring (no rounding); "
                  "pseudofunction arguments with more than one level of parentheses / nested pseudofunctions are outside the "
                  "generated language (open question in DESIGN 7).  Axiom-free (Closed under the global context).",
}

FUNCS1 = ["log", "exp", "sqrt", "abs", "logistic", "cf1"]
FUNCS2 = ["maximum", "minimum", "cf2"]
PSEUDO_NAMES = ["shift", "diff", "diff_log", "difflog", "pct", "roc", "mov_sum", "movsum", "mov_avg", "movavg",
                "mov_prod", "movprod"]
RESERVED = set(FUNCS1 + FUNCS2 + PSEUDO_NAMES + ["normal_cdf", "normal_pdf", "if", "in", "is", "or", "and", "not", "for",
                                               "lambda", "def", "else", "None", "True", "False", "as", "do", "then",
                                               "end", "list", "let"])

KINDS = {"TV": "QTransitionVariable", "MV": "QMeasurementVariable", "TS": "QTransitionShock", "MS": "QMeasurementShock",
         "P": "QParameter", "EX": "QExogenousVariable"}
KIND_OF_ENUM = {"TRANSITION_VARIABLE": "QTransitionVariable", "MEASUREMENT_VARIABLE": "QMeasurementVariable",
                "TRANSITION_SHOCK": "QTransitionShock", "ANTICIPATED_SHOCK_VALUE": "QAnticipatedShockValue",
                "MEASUREMENT_SHOCK": "QMeasurementShock", "PARAMETER": "QParameter",
                "EXOGENOUS_VARIABLE": "QExogenousVariable", "TRANSITION_STD": "QTransitionStd",
                "MEASUREMENT_STD": "QMeasurementStd", "UNSPECIFIED": "QUnspecified", "LHS_VARIABLE": "QLhsVariable",
                "RHS_ONLY_VARIABLE": "QRhsOnlyVariable"}
KW_SPELL = {
    "TV": ["!transition-variables", "!transition_variables", "!variables"],
    "TS": ["!transition-shocks", "!transition_shocks", "!shocks"],
    "MV": ["!measurement-variables", "!measurement_variables"],
    "MS": ["!measurement-shocks", "!measurement_shocks"],
    "P": ["!parameters"],
    "EX": ["!exogenous-variables", "!exogenous_variables"],
    "T": ["!transition-equations", "!transition_equations", "!equations"],
    "M": ["!measurement-equations", "!measurement_equations"],
    "log": ["!log-variables", "!log_variables"],
    "allbut": ["!all-but", "!all_but"],
    "subs": ["!substitutions"],
}


def translate(ctx):
    errors = []
    for t in (tr, trm):
        try:
            t.run()
        except core.TranslatorError as e:
            errors.append(str(e))
    if errors:
        raise core.TranslatorError(" | ".join(errors))


# =====================================================================================
# 1. Structured models
#
#   expr   ("name", pieces, shift) | ("num", m, d) | ("ctx", iexpr, jinja) | ("bin", op, powstyle, a, b)
#          | ("neg", a) | ("call", f, [args]) | ("paren", a) | ("pseudo", f, a, k|None) | ("subs", s)
#   pieces [("lit", s) | ("ctl", c, variant)]        shift ("z", k, bracket) | ("sctx", iexpr)
#   iexpr  ("const", z) | ("var", s) | ("add"|"sub"|"mul", a, b)
#   cond   ("truth", ie) | ("cmp", op, a, b) | ("streq", pieces, s, neg) | ("not", c) | ("and"|"or", a, b)
#   node   ("item", item) | ("for", ctl, tokitems, [node]) | ("if", cond, [node], [node]|None)
#   item   ("kw", kind, x, spelling) | ("qty", descr, name) | ("log", name) | ("eqn", descr, side, side|None)
#          | ("subs", name, assign, body) | ("tail", plus, expr)
#   side   {"lhs": e, "assign": b, "rhs": e, "tails": [node]}
# =====================================================================================

def lit(s):
    return [("lit", s)]


class Gen:
    """Generator of one structured model; every random choice comes from self.r."""

    def __init__(self, rng, feats):
        self.r = rng
        self.feats = feats          # set of excluded feature names (known findings)
        self.used = set()
        self.ctx = {}
        self.counter = 0

    # ---------------------------------------------------------------- names
    def fresh(self, prefix=None):
        r = self.r
        while True:
            if prefix is None:
                n = r.choice("abcdghkmnpqrsuvwxyzABKXYt")
                for _ in range(r.choice([0, 0, 1, 1, 2, 3])):
                    n += r.choice("abcxyz_0123456789ABZ")
            else:
                n = prefix + str(self.counter)
                self.counter += 1
            low = n.lower()
            if n in self.used or n in RESERVED or low.startswith(("ant_", "std_")) or n.endswith("_"):
                continue
            # a name must not collide with another one after a control token is appended / upper-cased
            if any(u.lower() == low for u in self.used):
                continue
            self.used.add(n)
            return n

    # ---------------------------------------------------------------- context expressions
    def iexpr(self, want=None):
        """integer expression over the context with a known value"""
        r = self.r
        ints = [k for k, v in self.ctx.items() if isinstance(v, int) and not isinstance(v, bool)]
        if not ints or r.random() < 0.15:
            z = r.randint(0, 4)
            return ("const", z), z
        k = r.choice(ints)
        e, v = ("var", k), self.ctx[k]
        q = r.random()
        if q < 0.3:
            c = r.randint(0, 3)
            return ("add", e, ("const", c)), v + c
        if q < 0.4:
            c = r.randint(1, 3)
            return ("mul", e, ("const", c)), v * c
        if q < 0.5:
            c = r.randint(0, 2)
            return ("sub", e, ("const", c)), v - c
        return e, v

    def cond(self, loopvars=()):
        """condition with a known truth value (None when it mentions a control variable)"""
        r = self.r
        q = r.random()
        if loopvars and q < 0.35:
            c, toks = r.choice(loopvars)
            tok = r.choice(toks + ["zz"])
            return ("streq", [("ctl", c, "plain")], tok, r.random() < 0.3), None
        if q < 0.45:
            flags = [k for k, v in self.ctx.items() if isinstance(v, bool)]
            if flags:
                k = r.choice(flags)
                return ("truth", ("var", k)), bool(self.ctx[k])
        if q < 0.8:
            a, va = self.iexpr()
            b, vb = self.iexpr()
            op = r.choice(["==", "!=", "<", "<=", ">", ">="])
            val = {"==": va == vb, "!=": va != vb, "<": va < vb, "<=": va <= vb, ">": va > vb, ">=": va >= vb}[op]
            return ("cmp", op, a, b), val
        if q < 0.88:
            c, v = self.cond()
            return ("not", c), (not v)
        a, va = self.cond()
        b, vb = self.cond()
        if r.random() < 0.5:
            return ("and", a, b), (va and vb)
        return ("or", a, b), (va or vb)

    # ---------------------------------------------------------------- expressions
    def shift(self, allow_ctx=True):
        r = self.r
        q = r.random()
        if q < 0.5:
            k = 0
        elif q < 0.9:
            k = r.choice([-1, -1, -1, -2, -3, 1, 1, 2, -4])
        else:
            k = r.randint(-6, 4)
        if allow_ctx and k != 0 and r.random() < 0.08 and self.ctx:
            e, v = self.iexpr()
            if -8 <= v <= 8:
                return ("sctx", e)
        return ("z", k, r.choice(["curly", "square"]))

    def atom_name(self, pool, flat=0):
        if flat and "shifted-shock" in self.feats:
            pool = [p for p in pool if p[1] != "TS"] or [(lit("zz_undeclared"), "P")]
        pieces, kind = self.r.choice(pool)
        sh = self.shift()
        if kind in ("TS",) and "shifted-shock" in self.feats:
            sh = ("z", 0, "curly")
        return ("name", pieces, sh)

    def num(self):
        r = self.r
        q = r.random()
        if q < 0.5:
            return ("num", r.choice([0, 1, 1, 2, 2, 3, 4, 5, 10, 100, 12, 7]), 0)
        d = r.choice([1, 1, 2, 3])
        m = r.randint(1, 10 ** d * 3)
        while m % 10 == 0:
            m = r.randint(1, 10 ** d * 3)
        return ("num", m, d)

    def atom(self, pool, depth, flat, subs):
        """flat: inside a pseudofunction argument (0 = not inside, 1 = inside at paren level 0, 2 = inside one
        level of parentheses: nothing with parentheses may follow)"""
        r = self.r
        q = r.random()
        if q < 0.45 or depth <= 0 and q < 0.7:
            return self.atom_name(pool, flat)
        if q < 0.6 or depth <= 0:
            if r.random() < 0.15 and self.ctx:
                e, v = self.iexpr()
                if v >= 0:
                    return ("ctx", e, r.random() < 0.3)
            return self.num()
        if flat == 2:
            return self.atom_name(pool, flat)
        if q < 0.70:
            inner = self.sum(pool, depth - 1, 2 if flat else 0, subs)
            return ("paren", inner)
        if q < 0.82:
            f = r.choice(FUNCS1)
            return ("call", f, [self.sum(pool, depth - 1, 2 if flat else 0, subs)])
        if flat:
            return self.atom_name(pool, flat)
        if q < 0.87:
            f = r.choice(FUNCS2)
            return ("call", f, [self.sum(pool, depth - 1, 0, subs), self.sum(pool, depth - 1, 0, subs)])
        if q < 0.93 and subs:
            s, closed = r.choice(subs)
            return ("subs", s) if closed else ("paren", ("subs", s))
        # pseudofunction call
        f = r.choice(PSEUDO_NAMES)
        arg = self.sum(pool, min(depth - 1, 2), 1, None)
        if not self.has_name(arg):
            arg = self.atom_name(pool, 1)
        if r.random() < 0.35:
            k = None
        elif f.startswith("mov"):
            k = r.choice([-1, -2, -3, -4, -5, -8, 2, 3, 1])
        else:
            k = r.choice([-1, -1, -2, -3, -4, 1, 2])
        return ("pseudo", f, arg, k)

    def has_name(self, e):
        k = e[0]
        if k == "name":
            return True
        if k == "subs":
            return self.has_name(getattr(self, "subs_body", {}).get(e[1], ("num", 1, 0)))
        if k == "bin":
            return self.has_name(e[3]) or self.has_name(e[4])
        if k in ("neg", "paren"):
            return self.has_name(e[1])
        if k == "call":
            return any(self.has_name(a) for a in e[2])
        if k == "pseudo":
            return self.has_name(e[2])
        return False

    def safe_const(self, e):
        """a divisor / base of a power is a positive literal or depends on data (Python scalars raise
        ZeroDivisionError or turn complex where arrays give inf / nan)"""
        return self.has_name(e) or (e[0] == "num" and e[1] > 0) or (e[0] == "ctx" and ieval(e[1], self.ctx) > 0)

    def is_zero(self, e):
        if e[0] == "num":
            return e[1] == 0
        if e[0] == "ctx":
            return ieval(e[1], self.ctx) == 0
        if e[0] in ("neg", "paren"):
            return self.is_zero(e[1])
        return False

    def power(self, pool, depth, flat, subs):
        r = self.r
        a = self.atom(pool, depth, flat, subs)
        if not self.safe_const(a):
            a = ("num", 2, 0)
        if r.random() < 0.12:
            q = r.random()
            if q < 0.6:
                ex = ("num", r.choice([2, 2, 3]), 0) if r.random() < 0.7 else self.num()
            else:
                ex = self.atom(pool, 0, flat, subs)
            if r.random() < 0.15:
                ex = ("neg", ex)
            if a[0] in ("ctx",):
                a = self.num()
                if a[1] == 0:
                    a = ("num", 3, 0)
            return ("bin", "Pow", r.choice(["caret", "starstar"]), a, ex)
        return a

    def factor(self, pool, depth, flat, subs):
        if self.r.random() < 0.1:
            return ("neg", self.power(pool, depth, flat, subs))
        return self.power(pool, depth, flat, subs)

    def term(self, pool, depth, flat, subs):
        r = self.r
        e = self.factor(pool, depth, flat, subs)
        n = r.choice([0, 0, 0, 1, 1, 2]) if depth > 0 else r.choice([0, 0, 1])
        for _ in range(n):
            op = r.choice(["Mul", "Mul", "Div"])
            f = self.factor(pool, depth, flat, subs)
            if op == "Div" and not self.safe_const(f):
                f = ("num", 4, 0)
            e = ("bin", op, "caret", e, f)
        return e

    def sum(self, pool, depth, flat, subs):
        r = self.r
        e = self.term(pool, depth, flat, subs)
        n = r.choice([0, 0, 1, 1, 2, 3]) if depth > 0 else r.choice([0, 0, 1])
        for _ in range(n):
            e = ("bin", r.choice(["Add", "Add", "Sub"]), "caret", e, self.term(pool, depth, flat, subs))
        return e


# ------------------------------------------------------------------ substitution / reference expansion (Python)

def apply_variant(v, tok):
    return tok.upper() if v in ("upper", "upperpipe") else tok.lower() if v in ("lower", "lowerpipe") else tok


def subst_pieces(ps, c, tok):
    return [("lit", apply_variant(p[2], tok)) if p[0] == "ctl" and p[1] == c else p for p in ps]


def subst_cond(cd, c, tok):
    k = cd[0]
    if k == "streq":
        return ("streq", subst_pieces(cd[1], c, tok), cd[2], cd[3])
    if k == "not":
        return ("not", subst_cond(cd[1], c, tok))
    if k in ("and", "or"):
        return (k, subst_cond(cd[1], c, tok), subst_cond(cd[2], c, tok))
    return cd


def subst_expr(e, c, tok):
    k = e[0]
    if k == "name":
        return ("name", subst_pieces(e[1], c, tok), e[2])
    if k == "bin":
        return ("bin", e[1], e[2], subst_expr(e[3], c, tok), subst_expr(e[4], c, tok))
    if k == "neg":
        return ("neg", subst_expr(e[1], c, tok))
    if k == "paren":
        return ("paren", subst_expr(e[1], c, tok))
    if k == "call":
        return ("call", e[1], [subst_expr(a, c, tok) for a in e[2]])
    if k == "pseudo":
        return ("pseudo", e[1], subst_expr(e[2], c, tok), e[3])
    return e


def subst_side(s, c, tok):
    return {"lhs": subst_expr(s["lhs"], c, tok), "assign": s["assign"], "rhs": subst_expr(s["rhs"], c, tok),
            "tails": [subst_node(n, c, tok) for n in s["tails"]]}


def subst_item(it, c, tok):
    k = it[0]
    if k == "qty":
        return ("qty", subst_pieces(it[1], c, tok), subst_pieces(it[2], c, tok)) + tuple(it[3:])
    if k == "log":
        return ("log", subst_pieces(it[1], c, tok))
    if k == "eqn":
        return ("eqn", subst_pieces(it[1], c, tok), subst_side(it[2], c, tok),
                subst_side(it[3], c, tok) if it[3] else None)
    if k == "tail":
        return ("tail", it[1], subst_expr(it[2], c, tok))
    return it


def subst_node(n, c, tok):
    if n[0] == "item":
        return ("item", subst_item(n[1], c, tok))
    if n[0] == "for":
        toks = [("tokname", subst_pieces(t[1], c, tok)) if t[0] == "tokname" else t for t in n[2]]
        return ("for", n[1], toks, [subst_node(x, c, tok) for x in n[3]])
    return ("if", subst_cond(n[1], c, tok), [subst_node(x, c, tok) for x in n[2]],
            [subst_node(x, c, tok) for x in n[3]] if n[3] is not None else None)


def close(ps):
    assert all(p[0] == "lit" for p in ps), ps
    return "".join(p[1] for p in ps)


def ieval(ie, ctx):
    k = ie[0]
    if k == "const":
        return ie[1]
    if k == "var":
        return int(ctx[ie[1]])
    a, b = ieval(ie[1], ctx), ieval(ie[2], ctx)
    return a + b if k == "add" else a - b if k == "sub" else a * b


def cond_eval(cd, ctx):
    k = cd[0]
    if k == "truth":
        return ieval(cd[1], ctx) != 0
    if k == "cmp":
        a, b = ieval(cd[2], ctx), ieval(cd[3], ctx)
        return {"==": a == b, "!=": a != b, "<": a < b, "<=": a <= b, ">": a > b, ">=": a >= b}[cd[1]]
    if k == "streq":
        return (close(cd[1]) == cd[2]) != cd[3]
    if k == "not":
        return not cond_eval(cd[1], ctx)
    if k == "and":
        return cond_eval(cd[1], ctx) and cond_eval(cd[2], ctx)
    return cond_eval(cd[1], ctx) or cond_eval(cd[2], ctx)


def tokens_of(tokitems, ctx):
    out = []
    for t in tokitems:
        if t[0] == "tokname":
            out.append(close(t[1]))
        else:
            out += list(ctx[t[1]])
    return out


def py_resolve(nodes, ctx):
    """The meaning of the directives, independently of irispie and of the Coq model: flat list of items."""
    out = []
    for n in nodes:
        if n[0] == "item":
            out.append(n[1])
        elif n[0] == "for":
            for tok in tokens_of(n[2], ctx):
                out += py_resolve([subst_node(x, n[1], tok) for x in n[3]], ctx)
        else:
            if cond_eval(n[1], ctx):
                out += py_resolve(n[2], ctx)
            elif n[3] is not None:
                out += py_resolve(n[3], ctx)
    return out


# ------------------------------------------------------------------ whole models

TOKENS = ["a", "b", "c", "x1", "Yb", "zQ", "hh", "Fr", "de", "n2"]
CTL_PLAIN = ["?c", "?d", "?i", "?j", "?s", "?n"]
CTL_PAREN = ["?(k)", "?(m)", "?(r)"]
DESCR_WORDS = ["Output", "gap", "rate", "of", "inflation", "real", "index", "growth,", "level;", "100%", "#1", "a=b",
               "x:=y", "(log)", "price", "[level]", "...", "2^3", "!!", "$", "shock", "to", "p*q", "A/B", "+1", "-1",
               "std", "it's", "ex-ante", "\\"]


class ModelGen(Gen):

    def descr(self, ctlpieces=None):
        r = self.r
        if r.random() < 0.45:
            return []
        words = [r.choice(DESCR_WORDS) for _ in range(r.randint(1, 4))]
        ps = [("lit", " ".join(words))]
        if ctlpieces and r.random() < 0.6:
            ps = ps + [("lit", " ")] + ctlpieces
        return ps

    def family(self, kind, nested=False):
        r = self.r
        while True:
            base = self.fresh()
            paren = r.random() < 0.3
            toks = r.sample(TOKENS, r.choice([1, 2, 2, 3]))
            variant = r.choice(["plain", "plain", "upper", "lower", "upperpipe", "lowerpipe"]) if paren else "plain"
            pos = r.choice(["suffix", "suffix", "prefix"])
            toks2 = r.sample(TOKENS, 2) if nested else None
            names = []
            for t in toks:
                for t2 in (toks2 or [None]):
                    n = (base + "_" + apply_variant(variant, t)) if pos == "suffix" else (apply_variant(variant, t) + "_" + base)
                    if t2 is not None:
                        n = n + "_" + t2
                    names.append(n)
            lows = [n.lower() for n in names]
            if len(set(lows)) == len(lows) and not any(n in RESERVED or any(u.lower() == n.lower() for u in self.used)
                                                       or n.lower().startswith(("ant_", "std_")) for n in names):
                break
        self.used.update(names)
        fam = {"base": base, "toks": toks, "toks2": toks2, "variant": variant, "pos": pos, "paren": paren, "kind": kind,
               "names": names}
        # tokens may come from the preparser context
        if r.random() < 0.3:
            key = "l%d" % len([k for k in self.ctx if k.startswith("l")])
            self.ctx[key] = list(toks)
            fam["tokctx"] = key
        return fam

    def fam_pieces(self, fam, ctl, ctl2=None):
        v = fam["variant"] if ctl.startswith("?(") else "plain"
        if fam["pos"] == "suffix":
            ps = [("lit", fam["base"] + "_"), ("ctl", ctl, v)]
        else:
            ps = [("ctl", ctl, v), ("lit", "_" + fam["base"])]
        if fam["toks2"]:
            ps = ps + [("lit", "_"), ("ctl", ctl2, "plain")]
        return ps

    def loop_ctl(self, fam, outer=()):
        """control name for a loop over the family; '?' only when nothing else is in scope"""
        r = self.r
        need_paren = fam["variant"] != "plain"
        pool = CTL_PAREN if (need_paren or (fam["paren"] and r.random() < 0.7)) else CTL_PLAIN
        cands = [c for c in pool if c not in outer]
        if not need_paren and not outer and not fam["toks2"] and r.random() < 0.25:
            return "?"
        return r.choice(cands)

    def tokitems(self, fam, which="toks"):
        r = self.r
        if which == "toks" and "tokctx" in fam and r.random() < 0.7:
            return [("tokctx", fam["tokctx"])]
        return [("tokname", lit(t)) for t in fam[which]]

    def wrap_loops(self, fam, inner_nodes_fn, allow_default=True):
        """for-loop(s) over the family around the nodes produced by inner_nodes_fn(ctl, ctl2)"""
        ctl = self.loop_ctl(fam)
        while ctl == "?" and not allow_default:     # '?' is a prefix of every control name of an inner loop
            ctl = self.loop_ctl(fam)
        if fam["toks2"]:
            ctl2 = self.r.choice([c for c in CTL_PLAIN if c != ctl])
            inner = inner_nodes_fn(ctl, ctl2)
            return [("for", ctl, self.tokitems(fam), [("for", ctl2, self.tokitems(fam, "toks2"), inner)])]
        return [("for", ctl, self.tokitems(fam), inner_nodes_fn(ctl, None))]

    def side(self, lhs_pieces, pool, loopvars, subs, is_T):
        r = self.r
        q = r.random()
        lhs = ("name", lhs_pieces, ("z", 0, "curly"))
        if q < 0.12:
            lhs = ("call", "log", [lhs])
        elif q < 0.2:
            lhs = ("bin", "Sub", "caret", lhs, self.term(pool, 1, 0, subs))
        elif q < 0.25:
            lhs = ("pseudo", r.choice(["diff", "diff_log", "pct", "roc"]), lhs, r.choice([None, -1, -4]))
        rhs = self.sum(pool, r.choice([1, 2, 2, 3]), 0, subs)
        tails = []
        if r.random() < 0.25:
            for _ in range(r.choice([1, 1, 2])):
                tails.append(self.tail_node(pool, loopvars, subs))
        return {"lhs": lhs, "assign": r.random() < 0.3, "rhs": rhs, "tails": tails}

    def tail_node(self, pool, loopvars, subs, depth=0):
        r = self.r
        q = r.random()
        outer = [c for c, _ in loopvars]
        if q < 0.45 and self.fams and depth < 2:
            fam = r.choice(self.fams)
            if not fam["toks2"] and fam["live"] and (fam["kind"] != "TS" or True):
                ctl = self.loop_ctl(fam, outer)
                if ctl == "?" and outer:
                    ctl = "?c" if "?c" not in outer else "?d"
                p2 = pool + [(self.fam_pieces(fam, ctl), fam["kind"])] * 3
                body = [("item", ("tail", r.random() < 0.8, self.term(p2, 1, 0, subs)))]
                if r.random() < 0.25:
                    cd, _ = self.cond(loopvars=[(ctl, fam["toks"])])
                    body = [("if", cd, body, None)]
                return ("for", ctl, self.tokitems(fam), body)
        if q < 0.7:
            cd, _ = self.cond(loopvars=loopvars)
            th = [("item", ("tail", r.random() < 0.7, self.term(pool, 1, 0, subs)))]
            el = [("item", ("tail", r.random() < 0.7, self.term(pool, 1, 0, subs)))] \
                if (r.random() < 0.5 and "if-else" not in self.feats) else None
            return ("if", cd, th, el)
        return ("item", ("tail", r.random() < 0.7, self.term(pool, 1, 0, subs)))

    def model(self):
        r = self.r
        self.ctx = {"k0": r.randint(0, 4), "k1": r.randint(1, 3), "f0": r.random() < 0.5, "f1": r.random() < 0.5}
        self.used.update(self.ctx)
        self.fams = []
        decl = {k: [] for k in KINDS}           # nodes
        slots = []                              # equations to generate once the name pool is known
        live = []                               # (pieces, kind) of names that exist in the final model

        def conditional(nodes, kind=None, force_plain=False):
            """maybe put the nodes under an !if; returns (nodes, alive, cond)"""
            if not force_plain and r.random() < 0.18:
                cd, val = self.cond()
                if r.random() < 0.3:
                    junk = [("item", ("qty", [], lit(self.fresh())))] if kind in ("P", "EX", "TS", "MS") else []
                    if junk and "if-else" not in self.feats:
                        return [("if", ("not", cd), junk, nodes)], val, cd
                return [("if", cd, nodes, None)], val, cd
            return nodes, True, None

        tagged = {}

        def maybe_tag(kind):
            return r.choice(["g1", "lg", "G_2"]) if (kind in ("TV", "MV", "EX") and r.random() < 0.2) else None

        def add_plain(kind, first=False):
            n = self.fresh()
            tag = maybe_tag(kind)
            nodes, alive, cd = conditional([("item", ("qty", self.descr(), lit(n), tag))], kind, first)
            if alive and tag:
                tagged.setdefault(tag, []).append(n)
            decl[kind] += nodes
            if alive:
                live.append((lit(n), kind))
            if kind in ("TV", "MV"):
                slots.append({"kind": "T" if kind == "TV" else "M", "fam": None, "name": lit(n), "cond": cd})

        def add_family(kind):
            fam = self.family(kind, nested=(kind in ("TV", "P") and r.random() < 0.2))
            self.fams.append(fam)

            tag = maybe_tag(kind)

            def inner(ctl, ctl2):
                ps = self.fam_pieces(fam, ctl, ctl2)
                dp = self.descr([("ctl", ctl, "plain")])
                return [("item", ("qty", dp, ps, tag))]
            nodes, alive, cd = conditional(self.wrap_loops(fam, inner), kind)
            if alive and tag:
                tagged.setdefault(tag, []).extend(fam["names"])
            decl[kind] += nodes
            fam["live"] = alive
            if alive:
                live.extend((lit(n), kind) for n in fam["names"])
            if kind in ("TV", "MV"):
                slots.append({"kind": "T" if kind == "TV" else "M", "fam": fam, "cond": cd})

        plan = (["TV"] * r.choice([1, 1, 2, 3, 4]) + ["MV"] * r.choice([0, 0, 1, 2]) + ["TS"] * r.choice([0, 1, 1, 2])
                + ["MS"] * r.choice([0, 0, 1]) + ["P"] * r.choice([0, 1, 2, 3]) + ["EX"] * r.choice([0, 0, 1]))
        r.shuffle(plan)
        add_plain("TV", True)                    # at least one equation always exists
        for kind in plan[1:] if plan[0] == "TV" else plan:
            if r.random() < 0.25:
                add_family(kind)
            else:
                add_plain(kind)
        pool = list(live)
        if not pool:
            pool = [(lit("zz_undeclared"), "P")]

        # substitutions
        subs_nodes, subs = [], []
        for i in range(r.choice([0, 0, 1, 2])):
            nm = r.choice(["s", "sub", "S_", "w"]) + str(i)
            body = self.sum(pool, r.choice([0, 1, 2]), 0, None)
            closed = body[0] in ("name", "num", "paren", "call") or (body[0] == "pseudo" and not (
                body[1] == "shift" and "shift-bare" in self.feats))
            subs.append((nm, closed))
            self.subs_body = dict(getattr(self, "subs_body", {}), **{nm: body})
            subs_nodes.append(("item", ("subs", nm, r.random() < 0.6, body)))

        # equations
        eqn = {"T": [], "M": []}
        for s in slots:
            fam = s["fam"]
            is_T = s["kind"] == "T"

            def one(name_pieces, pl, loopvars):
                dy = self.side(name_pieces, pl, loopvars, subs, is_T)
                st = self.side(name_pieces, pl, loopvars, subs, is_T) if r.random() < 0.25 else None
                return ("item", ("eqn", self.descr([("ctl", loopvars[0][0], "plain")] if loopvars else None), dy, st))
            if fam is None:
                nodes = [one(s["name"], pool, [])]
                if r.random() < 0.15 and "if-else" not in self.feats:
                    cd, _ = self.cond()
                    nodes = [("if", cd, nodes, [one(s["name"], pool, [])])]
            else:
                def inner(ctl, ctl2, fam=fam):
                    lv = [(ctl, fam["toks"])] + ([(ctl2, fam["toks2"])] if ctl2 else [])
                    pl = pool + [(self.fam_pieces(f, ctl, ctl2), f["kind"]) for f in self.fams
                                 if f["live"] and f["toks"] == fam["toks"] and bool(f["toks2"]) <= bool(ctl2)
                                 and (not f["toks2"] or f["toks2"] == fam["toks2"])
                                 and (f["variant"] == "plain" or ctl.startswith("?("))] * 2
                    return [one(self.fam_pieces(fam, ctl, ctl2), pl, lv)]
                nodes = self.wrap_loops(fam, inner, allow_default=False)
            if s["cond"] is not None:
                nodes = [("if", s["cond"], nodes, None)]
            eqn[s["kind"]] += nodes

        # log status
        loggable = [close(p) for p, k in live if k in ("TV", "MV", "EX")]
        allbut = r.random() < 0.4
        log_nodes = []
        if r.random() < 0.7 and loggable:
            chosen = [n for n in loggable if r.random() < 0.5]
            famlog = [f for f in self.fams if f["live"] and f["kind"] in ("TV", "MV", "EX") and not f["toks2"]]
            if famlog and r.random() < 0.5:
                f = r.choice(famlog)
                chosen = [n for n in chosen if n not in f["names"]]
                log_nodes += self.wrap_loops(f, lambda ctl, ctl2, f=f: [("item", ("log", self.fam_pieces(f, ctl)))])
            log_nodes += [("item", ("log", lit(n))) for n in chosen]
            for tag in tagged:
                if r.random() < 0.7:
                    log_nodes.append(("item", ("loglist", tag)))
            r.shuffle(log_nodes)

        # layout
        sections = []
        for k in KINDS:
            if decl[k]:
                sections.append((("kw", "qty", k), decl[k]))
        for k in ("T", "M"):
            if eqn[k]:
                sections.append((("kw", "eqn", k), eqn[k]))
        if subs_nodes:
            sections.append((("kw", "subs", None), subs_nodes))
        if log_nodes or r.random() < 0.3:
            if not log_nodes and r.random() < 0.6:
                allbut = True          # `!log-variables !all-but` with nothing listed: the idiom for "every variable is a log variable"
            sections.append((("kw", "log", allbut), log_nodes))
        split = []
        for kw, nodes in sections:
            if len(nodes) >= 2 and r.random() < 0.3:
                i = r.randint(1, len(nodes) - 1)
                split += [(kw, nodes[:i]), (kw, nodes[i:])]
            else:
                split.append((kw, nodes))
        r.shuffle(split)
        top = []
        for kw, nodes in split:
            sect = [("item", kw + (0,))] + nodes
            q = r.random()
            if q < 0.08:
                cd, val = self.cond()
                cd = cd if val else ("not", cd)
                sect = [("if", cd, sect, None)]
            elif q < 0.14 and "if-else" not in self.feats:
                cd, val = self.cond()
                junk = [("item", ("kw", "qty", "P", 0)), ("item", ("qty", [], lit(self.fresh())))]
                sect = [("if", cd, sect, junk)] if val else [("if", cd, junk, sect)]
            top += sect
        return {"context": dict(self.ctx), "nodes": top}


# =====================================================================================
# 2. Rendering to source text (random syntactic alternatives)
# =====================================================================================

COMMENT_WORDS = ["note", "the", "equation", "!if", "!for", "x{-1}", "diff(y)", "$s$", "100", "see", "a=b;", "\"q\"", "it's",
                 "!!", "<k0>", ":=", "^2", "end"]
OPTXT = {"Add": "+", "Sub": "-", "Mul": "*", "Div": "/"}


class Render:
    def __init__(self, rng, restyle=True, noisy=True, feats=(), stable=False):
        self.r = rng
        self.feats = feats
        self.stable = stable         # the non-blank text of an equation does not depend on random draws:
        if stable:                   # two models of a session then share their equations word for word
            self.restyle = restyle = False
        self.restyle = restyle       # re-draw the style fields (brackets, ^/**, =/:=, spellings, <>/{{}})
        self.noisy = noisy           # comments, continuations, odd white space

    # ------------------------------------------------------------ small pieces
    def sp(self):
        return self.r.choice(["", "", "", " ", " ", "  "]) if self.noisy else ""

    def comment_text(self):
        return " ".join(self.r.choice(COMMENT_WORDS) for _ in range(self.r.randint(0, 4)))

    def brk(self):
        """white space inside an equation, possibly a line break with a continuation mark or a comment"""
        r = self.r
        if not self.noisy or r.random() < 0.9:
            return self.sp()
        q = r.random()
        if q < 0.3:
            return "\n    "
        if q < 0.55:
            return " ...\n    "
        if q < 0.7:
            return " ... " + self.comment_text() + "\n  "
        if q < 0.8:
            return " \\ " + self.comment_text() + "\n  "
        if q < 0.9:
            return " % " + self.comment_text() + "\n  "
        return " # " + self.comment_text() + "\n  "

    def gap(self):
        """between items"""
        r = self.r
        if not self.noisy:
            return "\n"
        q = r.random()
        if q < 0.6:
            return r.choice(["\n", "\n  ", " ", "\n\n"])
        if q < 0.75:
            return " " + r.choice("%#") + " " + self.comment_text() + "\n"
        if q < 0.85:
            c = r.choice("%#")
            return "\n" + c + "{ " + self.comment_text() + "\n " + self.comment_text() + " " + c + "}\n"
        if q < 0.93:
            return "\n" + r.choice("%#") + "! " + " ".join(r.choice(["note", "keep", "this", "line", "1"]) for _ in range(2)) + "\n"
        return "\n\t\n"

    def pieces(self, ps):
        out = ""
        for p in ps:
            if p[0] == "lit":
                out += p[1]
            else:
                c, v = p[1], p[2]
                if v == "plain":
                    out += c
                elif v == "upper":
                    out += c.replace("(", "{").replace(")", "}")
                elif v == "lower":
                    out += c.replace("(", "[").replace(")", "]")
                else:
                    out += c + ("|upper" if v == "upperpipe" else "|lower")
        return out

    def iexpr(self, ie):
        k = ie[0]
        if k == "const":
            return str(ie[1]) if ie[1] >= 0 else f"({ie[1]})"
        if k == "var":
            return ie[1]
        o = {"add": "+", "sub": "-", "mul": "*"}[k]
        s = "" if self.stable else self.r.choice(["", " "])
        return self.iexpr(ie[1]) + s + o + s + self.iexpr(ie[2])

    def cond(self, cd):
        k = cd[0]
        if k == "truth":
            return self.iexpr(cd[1])
        if k == "cmp":
            return f"{self.iexpr(cd[2])} {cd[1]} {self.iexpr(cd[3])}"
        if k == "streq":
            return f'"{self.pieces(cd[1])}" {"!=" if cd[3] else "=="} "{cd[2]}"'
        if k == "not":
            return f"not ({self.cond(cd[1])})"
        return f"({self.cond(cd[1])}) {k} ({self.cond(cd[2])})"

    def ctxval(self, ie, jinja):
        if self.restyle:
            jinja = self.r.random() < 0.3
        if jinja:
            return "{{ " + self.iexpr(ie) + " }}"
        return "<" + self.iexpr(ie) + ">"

    def shift(self, sh, force_square=False):
        r = self.r
        if sh[0] == "sctx":
            return "[" + self.ctxval(sh[1], False) + "]"
        k, b = sh[1], sh[2]
        if self.restyle:
            b = r.choice(["curly", "square"])
        if force_square:       # name{k} right after ?(c) is not standardised by the preparser (not alarmed: see report)
            b = "square"
        if k == 0:
            if self.stable or r.random() < 0.93 or "shifted-shock" in self.feats:
                return ""
            txt = r.choice(["0", "+0", "-0"])
        else:
            txt = str(k) if k < 0 else ("+" + str(k) if self.stable else r.choice(["+" + str(k), str(k)]))
        if self.noisy and not self.stable and r.random() < 0.1:
            txt = " " + txt + r.choice(["", " "])
        return ("{" + txt + "}") if b == "curly" else ("[" + txt + "]")

    def num(self, m, d):
        if d == 0:
            return str(m)
        s = str(m).rjust(d + 1, "0")
        return s[:-d] + "." + s[-d:]

    # ------------------------------------------------------------ expressions
    def expr(self, e, tight=False):
        k = e[0]
        r = self.r
        if k == "name":
            last = e[1][-1]
            return self.pieces(e[1]) + self.shift(e[2], force_square=(last[0] == "ctl" and last[1].startswith("?(")))
        if k == "num":
            return self.num(e[1], e[2])
        if k == "ctx":
            return self.ctxval(e[1], e[2])
        if k == "bin":
            op, ps = e[1], e[2]
            if op == "Pow":
                if self.restyle:
                    ps = r.choice(["caret", "starstar"])
                o = "^" if ps == "caret" else "**"
                return self.expr(e[3], tight) + o + self.expr(e[4], tight)
            o = OPTXT[op]
            if tight:
                return self.expr(e[3], tight) + self.sp() + o + self.sp() + self.expr(e[4], tight)
            return self.expr(e[3]) + self.brk() + o + self.brk() + self.expr(e[4])
        if k == "neg":
            return "-" + self.expr(e[1], tight)
        if k == "paren":
            return "(" + self.sp() + self.expr(e[1], tight) + self.sp() + ")"
        if k == "call":
            return e[1] + "(" + ("," + self.sp()).join(self.expr(a, tight) for a in e[2]) + ")"
        if k == "pseudo":
            s = e[1] + "(" + self.sp() + self.expr(e[2], True)
            if e[3] is not None:
                kk = e[3]
                s += self.sp() + "," + self.sp() + (str(kk) if (kk < 0 or self.stable) else r.choice([str(kk), "+" + str(kk)]))
            return s + self.sp() + ")"
        if k == "subs":
            return "$" + e[1] + "$"
        raise AssertionError(e)

    def side(self, s):
        a = s["assign"] if not self.restyle else self.r.random() < 0.35
        out = self.expr(s["lhs"]) + self.sp() + (":=" if a else "=") + self.brk() + self.expr(s["rhs"])
        for n in s["tails"]:
            out += self.node(n, inline=True)
        return out

    # ------------------------------------------------------------ items and directives
    def kw(self, it):
        r = self.r
        kind, x, sp = it[1], it[2], it[3]
        key = x if kind in ("qty", "eqn") else kind
        opts = KW_SPELL[key]
        s = opts[sp % len(opts)] if not self.restyle else r.choice(opts)
        if kind == "log" and x:
            ab = KW_SPELL["allbut"]
            s += " " + (ab[0] if not self.restyle else r.choice(ab))
        return s

    def descr(self, ps):
        if not ps:
            return '"" ' if (self.noisy and self.r.random() < 0.1) else ""
        return '"' + self.pieces(ps) + '"' + self.r.choice([" ", " ", "\n  ", ""])

    def item(self, it):
        r = self.r
        k = it[0]
        if k == "kw":
            return "\n" + self.kw(it) + self.r.choice(["\n", "\n  ", " "])
        if k == "qty":
            tag = ("`" + it[3]) if len(it) > 3 and it[3] else ""
            return self.descr(it[1]) + self.pieces(it[2]) + tag + r.choice([",", ", ", ";", "\n", " ", " ,\n"]) + self.gap()
        if k == "loglist":
            return "!list(`" + it[1] + ")" + r.choice([",", ", ", "\n", " "]) + self.gap()
        if k == "log":
            return self.pieces(it[1]) + r.choice([",", ", ", "\n", " ", ";"]) + self.gap()
        if k == "eqn":
            s = self.descr(it[1]) + self.side(it[2])
            if it[3] is not None:
                s += self.sp() + "!!" + self.sp() + self.side(it[3])
            return s + self.sp() + ";" + self.gap()
        if k == "subs":
            a = it[2] if not self.restyle else r.random() < 0.6
            return it[1] + self.sp() + (":=" if a else "=") + self.sp() + self.expr(it[3]) + self.sp() + ";" + self.gap()
        if k == "tail":
            return self.brk() + ("+" if it[1] else "-") + self.sp() + self.expr(it[2])
        raise AssertionError(it)

    def node(self, n, inline=False):
        r = self.r
        nl = " " if inline else r.choice(["\n", " ", "\n  "])
        if n[0] == "item":
            return self.item(n[1])
        if n[0] == "for":
            ctl = n[1]
            sep = r.choice([", ", ",", " "])
            toks = sep.join(self.pieces(t[1]) if t[0] == "tokname" else "<" + t[1] + ">" for t in n[2])
            head = "!for " + ("" if (ctl == "?" and r.random() < 0.6) else ctl + r.choice([" = ", "=", " : "])) + toks + " !do"
            return " " + head + nl + "".join(self.node(x, inline) for x in n[3]) + " !end" + nl
        head = " !if " + self.cond(n[1]) + " !then" + nl
        body = "".join(self.node(x, inline) for x in n[2])
        if n[3] is not None:
            body += " !else" + nl + "".join(self.node(x, inline) for x in n[3])
        return head + body + " !end" + nl

    def source(self, model):
        return "".join(self.node(n) for n in model["nodes"]) + "\n"


def unroll(model):
    """the same model with every !for / !if resolved by hand (no directives left, also inside equations)"""
    ctx = model["context"]
    items = []
    for it in py_resolve(model["nodes"], ctx):
        if it[0] == "eqn":
            def flat(s):
                return None if s is None else dict(s, tails=[("item", t) for t in py_resolve(s["tails"], ctx)])
            it = ("eqn", it[1], flat(it[2]), flat(it[3]))
        items.append(("item", it))
    return with_funcs(model, {"context": ctx, "nodes": items})


# =====================================================================================
# 3. Coq literals
# =====================================================================================

class Interner:
    """string literals are the expensive part of elaborating a case file: each distinct string is defined once"""

    def __init__(self):
        self.names = {}

    def name(self, s):
        if s not in self.names:
            self.names[s] = f"s_{len(self.names)}"
        return self.names[s]

    def definitions(self):
        return "\n".join(f"Definition {n} : string := {coq_string(s)}." for s, n in self.names.items())


_INTERN = None


def cq_s(s):
    assert all(32 <= ord(ch) < 127 for ch in s), s
    if _INTERN is not None:
        return _INTERN.name(s)
    return coq_string(s)


VARIANT = {"plain": "VPlain", "upper": "VUpper", "lower": "VLower", "upperpipe": "VUpperPipe", "lowerpipe": "VLowerPipe"}
CMP = {"==": "CmpEq", "!=": "CmpNe", "<": "CmpLt", "<=": "CmpLe", ">": "CmpGt", ">=": "CmpGe"}


def cq_pieces(ps):
    return coq_list([f"Lit {cq_s(p[1])}" if p[0] == "lit" else f"Ctl {cq_s(p[1])} {VARIANT[p[2]]}" for p in ps])


def cq_iexpr(ie):
    k = ie[0]
    if k == "const":
        return f"(IConst {coq_z(ie[1])})"
    if k == "var":
        return f"(IVar {cq_s(ie[1])})"
    return f"({ {'add': 'IAdd', 'sub': 'ISub', 'mul': 'IMul'}[k]} {cq_iexpr(ie[1])} {cq_iexpr(ie[2])})"


def cq_cond(cd):
    k = cd[0]
    if k == "truth":
        return f"(CdTruth {cq_iexpr(cd[1])})"
    if k == "cmp":
        return f"(CdCmp {CMP[cd[1]]} {cq_iexpr(cd[2])} {cq_iexpr(cd[3])})"
    if k == "streq":
        return f"(CdStrEq {cq_pieces(cd[1])} {cq_s(cd[2])} {coq_bool(cd[3])})"
    if k == "not":
        return f"(CdNot {cq_cond(cd[1])})"
    return f"({'CdAnd' if k == 'and' else 'CdOr'} {cq_cond(cd[1])} {cq_cond(cd[2])})"


def cq_expr(e):
    k = e[0]
    if k == "name":
        sh = e[2]
        s = f"(ShZ {coq_z(sh[1])} {'Curly' if sh[2] == 'curly' else 'Square'})" if sh[0] == "z" else f"(ShCtx {cq_iexpr(sh[1])})"
        return f"(EName {cq_pieces(e[1])} {s})"
    if k == "num":
        return f"(ENum {coq_z(e[1])} {e[2]})"
    if k == "ctx":
        return f"(ECtx {cq_iexpr(e[1])} {coq_bool(e[2])})"
    if k == "bin":
        return f"(EBin {e[1]} {'Caret' if e[2] == 'caret' else 'StarStar'} {cq_expr(e[3])} {cq_expr(e[4])})"
    if k == "neg":
        return f"(ENeg {cq_expr(e[1])})"
    if k == "call":
        return f"(ECall {cq_s(e[1])} {coq_list([cq_expr(a) for a in e[2]])})"
    if k == "paren":
        return f"(EParen {cq_expr(e[1])})"
    if k == "pseudo":
        kk = "None" if e[3] is None else f"(Some {coq_z(e[3])})"
        return f"(EPseudo {cq_s(e[1])} {cq_expr(e[2])} {kk})"
    if k == "subs":
        return f"(ESubs {cq_s(e[1])})"
    raise AssertionError(e)


def flatten(nodes, cq_item):
    """tree -> flat directive sequence, as the preparser's grammar produces it"""
    out = []
    for n in nodes:
        if n[0] == "item":
            out.append(f"DText {cq_item(n[1])}")
        elif n[0] == "for":
            toks = coq_list([f"TokName {cq_pieces(t[1])}" if t[0] == "tokname" else f"TokCtx {cq_s(t[1])}" for t in n[2]])
            out.append(f"DFor {cq_s(n[1])} {toks}")
            out += flatten(n[3], cq_item)
            out.append("DEnd")
        else:
            out.append(f"DIf {cq_cond(n[1])}")
            out += flatten(n[2], cq_item)
            if n[3] is not None:
                out.append("DElse")
                out += flatten(n[3], cq_item)
            out.append("DEnd")
    return out


def cq_tail(it):
    return f"({coq_bool(it[1])}, {cq_expr(it[2])})"


def cq_side(s):
    return (f"(mkSide {cq_expr(s['lhs'])} {coq_bool(s['assign'])} {cq_expr(s['rhs'])} "
            f"{coq_list(flatten(s['tails'], cq_tail))})")


def cq_item(it):
    k = it[0]
    if k == "kw":
        kind, x, sp = it[1], it[2], it[3]
        if kind == "qty":
            return f"(IKeyword (BQty {KINDS[x]} {sp}))"
        if kind == "eqn":
            return f"(IKeyword (BEqn {'KTransition' if x == 'T' else 'KMeasurement'} {sp}))"
        if kind == "log":
            return f"(IKeyword (BLog {coq_bool(x)} {sp}))"
        return f"(IKeyword (BSubs {sp}))"
    if k == "qty":
        tag = f"(Some {cq_s(it[3])})" if len(it) > 3 and it[3] else "None"
        return f"(IQty {cq_pieces(it[1])} {cq_pieces(it[2])} {tag})"
    if k == "loglist":
        return f"(ILogList {cq_s(it[1])})"
    if k == "log":
        return f"(ILog {cq_pieces(it[1])})"
    if k == "eqn":
        st = "None" if it[3] is None else f"(Some {cq_side(it[3])})"
        return f"(IEqn {cq_pieces(it[1])} {cq_side(it[2])} {st})"
    if k == "subs":
        return f"(ISubs {cq_s(it[1])} {coq_bool(it[2])} {cq_expr(it[3])})"
    raise AssertionError(it)


def cq_context(ctx):
    rows = []
    for k, v in ctx.items():
        if isinstance(v, (bool, int)):
            rows.append(f"({cq_s(k)}, VInt {coq_z(int(v))})")
        elif isinstance(v, list):
            rows.append(f"({cq_s(k)}, VList {coq_list([cq_s(x) for x in v])})")
    return coq_list(rows)


def cq_source(model):
    return coq_list(flatten(model["nodes"], cq_item), ";\n    ")


def cq_xexpr(t):
    k = t[0]
    if k == "tok":
        return f"(CName {coq_z(t[1])} {coq_z(t[2])})"
    if k == "num":
        return f"(CNum {coq_z(t[1])} {t[2]})"
    if k == "bin":
        return f"(CBin {t[1]} {cq_xexpr(t[2])} {cq_xexpr(t[3])})"
    if k == "neg":
        return f"(CNeg {cq_xexpr(t[1])})"
    if k == "call":
        return f"(CCall {cq_s(t[1])} {coq_list([cq_xexpr(a) for a in t[2]])})"
    raise AssertionError(t)


def cq_observed(obs):
    if "err" in obs:
        return "CFail"
    qs = coq_list([f"mkQ {cq_s(q[0])} {q[1]} {cq_s(q[2])} "
                   f"{'None' if q[3] is None else '(Some ' + coq_bool(q[3]) + ')'}" for q in obs["quantities"]], ";\n     ")
    dy = coq_list([cq_xexpr(t) for t in obs["dynamic"]], ";\n     ")
    st = coq_list([cq_xexpr(t) for t in obs["steady"]], ";\n     ")
    ds = coq_list([cq_s(d) for d in obs["descriptions"]])
    return f"(COk (mkModel {qs}\n    {dy}\n    {st}\n    {ds}))"


# =====================================================================================
# 4. The implementation: Simultaneous.from_string and the compiled equations
# =====================================================================================

class NotInLanguage(Exception):
    pass


# The preparser context also carries the user functions called by the equations.  They are DATA of the structured
# model (model["funcs"] = {"cf1": [a, b], "cf2": [a, b]}: cf1(x) = x*a + b, cf2(x, y) = a*x + b*y), so that two models of
# one session can bind the same function name to different callables while their source text is the same.
DEFAULT_FUNCS = {"cf1": [0.5, 1.0], "cf2": [1.0, -2.0]}
CF1_CHOICES = [[0.5, 1.0], [2.0, 0.0], [0.25, 2.0], [1.5, 0.5], [3.0, 1.0], [1.0, 0.75]]
CF2_CHOICES = [[1.0, -2.0], [0.5, 1.0], [2.0, 0.5], [1.0, 1.0], [-1.0, 2.0], [0.25, -0.5]]


def make_user_function(name, coef):
    a, b = float(coef[0]), float(coef[1])
    if name == "cf1":
        def cf1(x):
            return x * a + b
        return cf1

    def cf2(x, y):
        return a * x + b * y
    return cf2


def model_funcs(model):
    return dict(DEFAULT_FUNCS, **(model.get("funcs") or {}))


def _cf1(x):
    return make_user_function("cf1", DEFAULT_FUNCS["cf1"])(x)


def _cf2(x, y):
    return make_user_function("cf2", DEFAULT_FUNCS["cf2"])(x, y)


def impl_context(model):
    """a fresh dict with fresh callables on every call (nothing is shared between two compilations)"""
    return dict(model["context"], **{n: make_user_function(n, c) for n, c in model_funcs(model).items()})


def with_funcs(model, new):
    """the derived model keeps the user functions of the model it was derived from"""
    if model.get("funcs") is not None and "funcs" not in new:
        new["funcs"] = model["funcs"]
    return new


def calls_user_function(model) -> bool:
    def fe(e):
        if isinstance(e, (list, tuple)):
            if len(e) >= 2 and e[0] == "call" and e[1] in ("cf1", "cf2"):
                return True
            return any(fe(x) for x in e)
        if isinstance(e, dict):
            return any(fe(x) for x in e.values())
        return False
    return fe(model["nodes"])


def other_funcs(r, funcs):
    """another binding of BOTH names (so that whichever the equations call differs)"""
    cur = dict(DEFAULT_FUNCS, **(funcs or {}))
    return {"cf1": r.choice([c for c in CF1_CHOICES if c != list(cur["cf1"])]),
            "cf2": r.choice([c for c in CF2_CHOICES if c != list(cur["cf2"])])}


def inject_user_calls(model, r):
    """wrap the right-hand side of some equations (dynamic and steady variants) into a call of a user function"""
    hit = [False]

    def fs(sd):
        if sd is None or r.random() < 0.4:
            return sd
        hit[0] = True
        if r.random() < 0.6:
            return dict(sd, rhs=("call", "cf1", [sd["rhs"]]))
        return dict(sd, rhs=("call", "cf2", [sd["rhs"], sd["lhs"]]))

    def fn(n):
        if n[0] == "item":
            it = n[1]
            if it[0] == "eqn":
                return ("item", ("eqn", it[1], fs(it[2]), fs(it[3])))
            return n
        if n[0] == "for":
            return ("for", n[1], n[2], [fn(x) for x in n[3]])
        return ("if", n[1], [fn(x) for x in n[2]], [fn(x) for x in n[3]] if n[3] is not None else None)
    new = dict(model, nodes=[fn(n) for n in model["nodes"]])
    return new if hit[0] else model


def parse_number(v):
    if isinstance(v, bool) or not isinstance(v, (int, float)):
        raise NotInLanguage(f"constant {v!r}")
    if isinstance(v, int):
        return ("num", v, 0)
    s = repr(v)
    if "e" in s or "n" in s:
        raise NotInLanguage(f"constant {s}")
    a, b = s.split(".")
    b = b.rstrip("0")
    return ("num", int(a + b), len(b))


_PYOPS = {ast.Add: "Add", ast.Sub: "Sub", ast.Mult: "Mul", ast.Div: "Div", ast.Pow: "Pow"}


def parse_xtring(x: str):
    """compiled equation (a Python expression over x[(qid, t+k)]) -> tree"""
    def go(n):
        if isinstance(n, ast.BinOp) and type(n.op) in _PYOPS:
            return ("bin", _PYOPS[type(n.op)], go(n.left), go(n.right))
        if isinstance(n, ast.UnaryOp) and isinstance(n.op, ast.USub):
            return ("neg", go(n.operand))
        if isinstance(n, ast.Constant):
            return parse_number(n.value)
        if isinstance(n, ast.Call) and isinstance(n.func, ast.Name) and not n.keywords:
            return ("call", n.func.id, [go(a) for a in n.args])
        if isinstance(n, ast.Subscript) and isinstance(n.value, ast.Name) and n.value.id == "x" \
                and isinstance(n.slice, ast.Tuple) and len(n.slice.elts) == 2 and isinstance(n.slice.elts[0], ast.Constant):
            q, tt = n.slice.elts
            if isinstance(tt, ast.Name) and tt.id == "t":
                return ("tok", q.value, 0)
            if isinstance(tt, ast.BinOp) and isinstance(tt.left, ast.Name) and tt.left.id == "t" \
                    and isinstance(tt.right, ast.Constant) and type(tt.op) in (ast.Add, ast.Sub):
                return ("tok", q.value, tt.right.value if isinstance(tt.op, ast.Add) else -tt.right.value)
        raise NotInLanguage(ast.unparse(n)[:80])
    return go(ast.parse(x, mode="eval").body)


def observe(m):
    qs = []
    for q in m.get_quantities():
        qs.append((q.human, KIND_OF_ENUM[q.kind.name], q.description or "", q.logly))
    dyn = m.get_dynamic_equation_objects()
    std = m.get_steady_equation_objects()
    return {"quantities": qs, "dynamic": [parse_xtring(e.xtring) for e in dyn],
            "steady": [parse_xtring(e.xtring) for e in std], "descriptions": [e.description or "" for e in dyn],
            "xtrings": [e.xtring for e in dyn]}


def run_impl(model, src):
    import irispie as ir
    try:
        m = ir.Simultaneous.from_string(src, context=impl_context(model))
    except Exception as e:  # noqa
        return None, {"err": f"{type(e).__name__}: {e}"[:300]}
    try:
        return m, observe(m)
    except (NotInLanguage, SyntaxError) as e:
        return m, {"err": f"compiled equation is not an expression of the language: {e}"[:300]}


def _impl_worker(job):
    """a job is a session: sources compiled one after the other in this process"""
    return [run_impl(model, src)[1] for model, src in job]


def run_impl_many(sessions):
    """Simultaneous.from_string for many sessions (lists of (model, source), compiled in order in one process);
    forked workers (one call costs ~0.3 s); a worker serves several sessions one after the other"""
    import multiprocessing as mp
    if len(sessions) < 4:
        return [_impl_worker(j) for j in sessions]
    import irispie  # noqa: imported before the fork
    with mp.get_context("fork").Pool(min(core.NCPU, 16)) as pool:
        return pool.map(_impl_worker, sessions, chunksize=2)


# ------------------------------------------------------------------ sessions of related models
# The property quantifies over all sources, whatever was compiled before in the same Python session.  A session is a
# base model followed by variants that share most of their text (equations, <...> expressions, $substitutions$)
# with it but differ in the declarations (order, extra names => other quantity ids), in the preparser context or in
# the body of a substitution.

def _sections(nodes):
    """top-level units: every unit starts by switching the block (keyword item or an !if around a whole section)"""
    units = []
    for n in nodes:
        starts = (n[0] == "item" and n[1][0] == "kw") or (n[0] == "if" and n[2] and n[2][0][0] == "item"
                                                          and n[2][0][1][0] == "kw")
        if starts or not units:
            units.append([n])
        else:
            units[-1].append(n)
    return units


def _used_names(e, subs, acc):
    k = e[0]
    if k == "name":
        acc.add(close(e[1]))
    elif k == "bin":
        _used_names(e[3], subs, acc); _used_names(e[4], subs, acc)
    elif k in ("neg", "paren"):
        _used_names(e[1], subs, acc)
    elif k == "call":
        for a in e[2]:
            _used_names(a, subs, acc)
    elif k == "pseudo":
        _used_names(e[2], subs, acc)
    elif k == "subs":
        _used_names(subs[e[1]], subs, acc)


def _const_ok(e, ctx, subs):
    """no literal / context constant that is not positive where Python scalars misbehave (see Gen.safe_const)"""
    k = e[0]
    if k == "ctx":
        return ieval(e[1], ctx) >= 0
    if k == "bin":
        ok = _const_ok(e[3], ctx, subs) and _const_ok(e[4], ctx, subs)
        if e[1] in ("Div", "Pow"):
            d = e[4] if e[1] == "Div" else e[3]
            acc = set()
            try:
                _used_names(d, subs, acc)
            except (KeyError, AssertionError):
                return False
            if not acc and not ((d[0] == "num" and d[1] > 0) or (d[0] == "ctx" and ieval(d[1], ctx) > 0)):
                return False
        return ok
    if k in ("neg", "paren"):
        return _const_ok(e[1], ctx, subs)
    if k == "call":
        return all(_const_ok(a, ctx, subs) for a in e[2])
    if k == "pseudo":
        return _const_ok(e[2], ctx, subs)
    if k == "subs":
        return e[1] in subs and _const_ok(subs[e[1]], ctx, subs)
    return True


def valid_model(model) -> bool:
    """the structured model is a well-formed source (independent reading): names declared once, every name used is
    declared, one equation per variable, log names loggable, consistent !all-but"""
    try:
        ref = reference_model(model)
        items = py_resolve(model["nodes"], model["context"])
    except (KeyError, AssertionError, TypeError):
        return False
    names = [close(it[2]) for it in items if it[0] == "qty"]
    if len(set(names)) != len(names) or any(n.startswith(("ant_", "std_")) for n in names):
        return False
    flags = [bool(it[2]) for it in items if it[0] == "kw" and it[1] == "log"]
    if len(set(flags)) > 1:
        return False
    kinds = {n: v[0] for n, v in ref["quantities"].items()}
    ntv = sum(1 for v in kinds.values() if v == "QTransitionVariable")
    nmv = sum(1 for v in kinds.values() if v == "QMeasurementVariable")
    if ntv != sum(1 for e in ref["equations"] if e[0] == "T") or nmv != sum(1 for e in ref["equations"] if e[0] == "M"):
        return False
    if not ref["equations"]:
        return False
    loggable = {n for n, v in kinds.items() if v in ("QTransitionVariable", "QMeasurementVariable", "QExogenousVariable")}
    block, tags = None, {}
    for it in items:
        if it[0] == "qty" and len(it) > 3 and it[3]:
            tags.setdefault(it[3], []).append(close(it[2]))
    for it in items:
        if it[0] == "kw":
            block = it[1]
        elif it[0] == "log" and (block != "log" or close(it[1]) not in loggable):
            return False
        elif it[0] == "loglist" and (block != "log" or not tags.get(it[1]) or not set(tags[it[1]]) <= loggable):
            return False
    used = set()
    try:
        for _k, _d, dy, st in ref["equations"]:
            for sd in (dy, st):
                if sd is not None:
                    for e in [sd["lhs"], sd["rhs"]] + [t for _, t in sd["tails"]]:
                        _used_names(e, ref["subs"], used)
                        if not _const_ok(e, model["context"], ref["subs"]):
                            return False
    except (KeyError, AssertionError):
        return False
    return used <= set(names)


def session_variants(model, r, feats):
    """variants of a model that keep (most of) its text: [(what, model)]"""
    out = []
    nodes, ctx = model["nodes"], model["context"]
    ref = reference_model(model)
    live = list(ref["quantities"])
    fresh = lambda stem: next(f"{stem}{i}" for i in range(1000)   # noqa
                              if not any(n.lower() == f"{stem}{i}".lower() for n in live + list(ctx)))

    def nm(n, k=0):
        return ("name", lit(n), ("z", k, "curly"))

    def q(n):
        return ("item", ("qty", [], lit(n)))
    # V1: the same sections in another order, declarations inside a section reversed / shuffled
    units = [list(u) for u in _sections(nodes)]
    for u in units:
        head = u[0]
        if head[0] == "item" and head[1][1] == "qty" and len(u) > 2:
            body = u[1:]
            r.shuffle(body)
            u[1:] = body
    r.shuffle(units)
    out.append(("reordered", {"context": ctx, "nodes": [n for u in units for n in u]}))
    # V2: one more variable / parameter / shock declared ahead of all the others
    v, par = fresh("zw"), fresh("zp")
    front = [("item", ("kw", "qty", "P", 0)), q(par), ("item", ("kw", "qty", "TV", 0)), q(v)]
    some = r.choice(live) if live else v
    rhs = ("bin", "Add", "caret", ("bin", "Mul", "caret", nm(par), nm(v, -1)), nm(some, r.choice([0, -1, 1])))
    if r.random() < 0.5:
        sh = fresh("ze")
        front = [("item", ("kw", "qty", "TS", 0)), q(sh)] + front
        rhs = ("bin", "Add", "caret", rhs, nm(sh))
    front += [("item", ("kw", "eqn", "T", 0)),
              ("item", ("eqn", [], {"lhs": nm(v), "assign": False, "rhs": rhs, "tails": []}, None))]
    out.append(("extra-names-first", {"context": ctx, "nodes": front + list(nodes)}))
    # V3: another preparser context (flags flipped, integers and token lists changed), same text
    c2 = dict(ctx)
    for k, val in ctx.items():
        if isinstance(val, bool):
            if r.random() < 0.6:
                c2[k] = not val
        elif isinstance(val, int):
            if val >= 1 and r.random() < 0.7:
                c2[k] = val + r.randint(1, 2)
        elif isinstance(val, list) and r.random() < 0.6:
            extra = [t for t in TOKENS if t not in val]
            c2[k] = (val + [r.choice(extra)]) if (extra and r.random() < 0.6) else list(reversed(val))
    if c2 != ctx:
        out.append(("other-context", {"context": c2, "nodes": nodes}))
    # V4: another body for a substitution, the uses $name$ unchanged
    if ref["subs"]:
        which = r.choice(sorted(ref["subs"]))

        def fn(n):
            if n[0] == "item":
                it = n[1]
                if it[0] == "subs" and it[1] == which:
                    return ("item", ("subs", it[1], it[2], ("paren", ("bin", "Mul", "caret", ("num", 2, 0), ("paren", it[3])))))
                return n
            if n[0] == "for":
                return ("for", n[1], n[2], [fn(x) for x in n[3]])
            return ("if", n[1], [fn(x) for x in n[2]], [fn(x) for x in n[3]] if n[3] is not None else None)
        out.append(("other-substitution", {"context": ctx, "nodes": [fn(n) for n in nodes]}))
    # V5: a parameter becomes an exogenous variable and vice versa (other kind => other id), same equations
    units = [list(u) for u in _sections(nodes)]
    swapped = False
    for u in units:
        head = u[0]
        if head[0] == "item" and head[1][:2] == ("kw", "qty") and head[1][2] in ("P", "EX") and r.random() < 0.7:
            u[0] = ("item", ("kw", "qty", "EX" if head[1][2] == "P" else "P", head[1][3]))
            swapped = True
    if swapped:
        out.append(("other-kind", {"context": ctx, "nodes": [n for u in units for n in u]}))
    # V6: the same text and the same preparser values, the user functions bound to other callables
    if calls_user_function(model):
        out.append(("other-functions", dict(model, funcs=other_funcs(r, model.get("funcs")))))
    good = []
    for what, m in out:
        m = with_funcs(model, m)
        if "shift-bare" in feats:
            m = _atomise_shift(m)
        if valid_model(m):
            good.append((what, m))
    return good


def gen_session(rng, feats, n_random=0):
    """[(what, model, source)]: base model (n_random random renderings + one stable rendering) and its variants"""
    import random
    r = random.Random(rng.getrandbits(64))
    base = gen_case(r, feats)
    rf = random.Random(r.getrandbits(64))
    if rf.random() < 0.6:
        # user functions of the context in the equations, bound to callables of this model's own
        injected = inject_user_calls(base, rf)
        if valid_model(injected):
            base = injected
    if calls_user_function(base) and rf.random() < 0.7:
        base = dict(base, funcs={"cf1": rf.choice(CF1_CHOICES), "cf2": rf.choice(CF2_CHOICES)})
    sess = [("rendering", base, Render(random.Random(r.getrandbits(64)), feats=feats).source(base)) for _ in range(n_random)]
    base_seed = r.getrandbits(64)
    sess.append(("base", base, Render(random.Random(base_seed), feats=feats, stable=True).source(base)))
    variants = session_variants(base, r, feats)
    r.shuffle(variants)
    variants.sort(key=lambda v: v[0] != "other-functions")     # other callables for the same text: always part of it
    for what, m in variants[:r.choice([2, 3])]:
        # another context: the source text is identical to the base, character for character
        seed = base_seed if what in ("other-context", "other-functions") else r.getrandbits(64)
        sess.append((what, m, Render(random.Random(seed), feats=feats, stable=True).source(m)))
    if r.random() < 0.5:      # and the base once more at the end of the session
        sess.append(("base-again", base, Render(random.Random(base_seed), feats=feats, stable=True).source(base)))
    return sess


# =====================================================================================
# 5. Correspondence: compile (Coq) == Simultaneous.from_string (implementation), exactly
# =====================================================================================

HEADER = """From Coq Require Import ZArith List String Bool.
From Verif Require Import lib.LangSyntax model.Lang.
Import ListNotations.
Open Scope Z_scope.
Open Scope string_scope.
Set Printing Width 1000000.
Set Printing Depth 1000000.
"""

FEATURES = {
    # known-finding keys -> feature that the correspondence generator then leaves out
    "pseudo:shift-not-parenthesised": "shift-bare",
    "preparser:if-without-else-then-if-else": "if-else",
    "anticipated-shock:shifted-shock": "shifted-shock",
}


def excluded_features():
    known = core.load_known()
    keys = {k.get("key") for k in known.get("findings", []) if k.get("property") == ID}
    return {f for k, f in FEATURES.items() if k in keys}


def gen_case(rng, feats, malformed=0.0):
    import random
    r = random.Random(rng.getrandbits(64))
    g = ModelGen(r, feats)
    model = g.model()
    if "shift-bare" in feats:
        model = _atomise_shift(model)
    if r.random() < malformed:
        model = malform(model, g, r)
    return model


def malform(model, g, r):
    """a source that must be rejected: both the implementation (exception) and the model (CFail)"""
    ref = reference_model(model)
    names = list(ref["quantities"])
    nodes = list(model["nodes"])
    kind = r.choice(["allbut", "log-parameter", "no-equation", "duplicate", "undeclared"])
    q = lambda n: ("item", ("qty", [], lit(n)))   # noqa
    if kind == "allbut":
        nodes += [("item", ("kw", "log", True, 0)), ("item", ("kw", "log", False, 0))]
    elif kind == "log-parameter":
        nodes += [("item", ("kw", "qty", "P", 0)), q("zz_par"), ("item", ("kw", "log", False, 0)), ("item", ("log", lit("zz_par")))]
        if any(it[0] == "kw" and it[1] == "log" and it[2] for it in py_resolve(model["nodes"], model["context"])):
            nodes[-2] = ("item", ("kw", "log", True, 0))
    elif kind == "no-equation":
        nodes += [("item", ("kw", "qty", r.choice(["TV", "MV"]), 0)), q("zz_extra")]
    elif kind == "duplicate" and names:
        n = r.choice(names)
        nodes += [("item", ("kw", "qty", r.choice(["P", "EX"]), 0)), q(n)]
    else:
        nodes += [("item", ("kw", "qty", "TV", 0)), q("zz_v"), ("item", ("kw", "eqn", "T", 0)),
                  ("item", ("eqn", [], {"lhs": ("name", lit("zz_v"), ("z", 0, "curly")), "assign": False,
                                        "rhs": ("name", lit("zz_nowhere"), ("z", -1, "curly")), "tails": []}, None))]
    return with_funcs(model, {"context": model["context"], "nodes": nodes, "malformed": kind})


def _atomise_shift(model):
    """(known finding) shift(e) only with an atomic argument"""
    def fe(e):
        k = e[0]
        if k == "pseudo":
            a = fe(e[2])
            if e[1] == "shift" and a[0] not in ("name", "num"):
                return ("pseudo", "diff", a, e[3])
            return ("pseudo", e[1], a, e[3])
        if k == "bin":
            return ("bin", e[1], e[2], fe(e[3]), fe(e[4]))
        if k in ("neg", "paren"):
            return (k, fe(e[1]))
        if k == "call":
            return ("call", e[1], [fe(a) for a in e[2]])
        return e

    def fs(s):
        return None if s is None else dict(s, lhs=fe(s["lhs"]), rhs=fe(s["rhs"]), tails=[fn(n) for n in s["tails"]])

    def fi(it):
        if it[0] == "eqn":
            return ("eqn", it[1], fs(it[2]), fs(it[3]))
        if it[0] == "subs":
            return ("subs", it[1], it[2], fe(it[3]))
        if it[0] == "tail":
            return ("tail", it[1], fe(it[2]))
        return it

    def fn(n):
        if n[0] == "item":
            return ("item", fi(n[1]))
        if n[0] == "for":
            return ("for", n[1], n[2], [fn(x) for x in n[3]])
        return ("if", n[1], [fn(x) for x in n[2]], [fn(x) for x in n[3]] if n[3] is not None else None)
    return with_funcs(model, {"context": model["context"], "nodes": [fn(n) for n in model["nodes"]]})


def shard_text(cases) -> str:
    """cases: list of (model, observed)"""
    global _INTERN
    _INTERN = Interner()
    lines = []
    src_of, obs_of, pairs = {}, {}, []
    for model, obs in cases:
        # the renderings of one model share the model literal (and, if the implementation is right, the observation)
        if id(model) not in src_of:
            k = len(src_of)
            src_of[id(model)] = k
            lines.append(f"Definition ctx_{k} : context := {cq_context(model['context'])}.")
            lines.append(f"Definition src_{k} : source :=\n   {cq_source(model)}.")
            lines.append(f"Definition res_{k} : cres := Eval vm_compute in compile ctx_{k} true big_fuel src_{k}.")
        text = cq_observed(obs)
        if text not in obs_of:
            obs_of[text] = len(obs_of)
            lines.append(f"Definition obs_{obs_of[text]} : cres := {text}.")
        pairs.append(f"(res_{src_of[id(model)]}, obs_{obs_of[text]})")
    lines.append("Definition cases : list (cres * cres) := [" + "; ".join(pairs) + "].")
    lines.append("Eval vm_compute in (map (fun p => cres_diff (fst p) (snd p)) cases).")
    defs = _INTERN.definitions()
    _INTERN = None
    return HEADER + defs + "\n" + "\n".join(lines) + "\n"


def model_stats(model, dist):
    def walk(nodes, depth):
        for n in nodes:
            if n[0] == "item":
                it = n[1]
                dist["items"][it[0]] = dist["items"].get(it[0], 0) + 1
                if it[0] == "eqn":
                    for s in (it[2], it[3]):
                        if s is not None:
                            if s["tails"]:
                                dist["equations_with_inline_directives"] += 1
                            walk(s["tails"], depth)
                            count_expr(s["lhs"]); count_expr(s["rhs"])
                    if it[3] is not None:
                        dist["steady_variants"] += 1
                elif it[0] == "subs":
                    count_expr(it[3])
                elif it[0] == "tail":
                    count_expr(it[2])
            else:
                dist["directives"][n[0]] = dist["directives"].get(n[0], 0) + 1
                dist["max_nesting"] = max(dist["max_nesting"], depth + 1)
                if n[0] == "for":
                    walk(n[3], depth + 1)
                else:
                    if n[3] is not None:
                        dist["directives"]["else"] = dist["directives"].get("else", 0) + 1
                    walk(n[2], depth + 1)
                    walk(n[3] or [], depth + 1)

    def count_expr(e):
        k = e[0]
        if k == "pseudo":
            dist["pseudofunctions"][e[1]] = dist["pseudofunctions"].get(e[1], 0) + 1
            count_expr(e[2])
        elif k == "bin":
            count_expr(e[3]); count_expr(e[4])
        elif k in ("neg", "paren"):
            count_expr(e[1])
        elif k == "call":
            for a in e[2]:
                count_expr(a)
        elif k == "subs":
            dist["substitution_uses"] += 1
        elif k == "ctx":
            dist["context_values"] += 1
    walk(model["nodes"], 0)


# ------------------------------------------------------------------ makers sessions (model/Makers.v)
MK_NAMES = ["__equator", "__simulate_level", "__simulate_residual", "fn_1"]
MK_ARGS = [["x", "t"], ["x"], ["x", "t", "lhs"], []]
MK_EXPRS = ["(f(x[(0, t)]) + g(x[(1, t-1)]) , )", "(-(x[(0, t)])+cf1(x[(1, t)]) , )", "log(x) + f(x)", "(h(1) , g(2) , )",
            "(-(x[(0, t)])+x[(0, t-1)]**2  ,  -(x[(1, t)])+cf2(x[(0, t)], 3) , )", "0"]
MK_KEYS = ["f", "g", "h", "cf1", "cf2", "log", "maximum", "__builtins__", "sqrt", "beta", "np"]


class _Obj:
    """an object a context holds (a user function, a value): only its identity matters"""
    def __init__(self, tag):
        self.tag = tag

    def __call__(self, *a):
        return self.tag


def gen_makers_session(r):
    """[(func_name, args, expression, [(key, tag)] | None)]: few texts and few keys, so that requests of a session share
    their text and/or their context keys while the objects differ"""
    n = r.choice([2, 3, 3, 4, 5, 6])
    exprs = r.sample(MK_EXPRS, r.choice([1, 2, 2, 3]))
    names = r.sample(MK_NAMES, r.choice([1, 1, 2]))
    args = r.choice(MK_ARGS)
    out, tag = [], 0
    shared = None
    for _ in range(n):
        q = r.random()
        if q < 0.08:
            cx = None
        elif q < 0.14:
            cx = []
        elif q < 0.3 and shared is not None:
            cx = list(shared)               # the very same objects under the same keys
        else:
            cx = []
            for k in r.sample(MK_KEYS, r.randint(1, 4)):
                tag += 1
                cx.append((k, f"<obj {tag}>"))
            shared = cx
        out.append((r.choice(names), list(args) if r.random() < 0.85 else r.choice(MK_ARGS), r.choice(exprs), cx))
    return out


def run_makers_session(sess):
    """the implementation on the session, observed AFTER the whole session: per call the text, the entries of the
    returned globals and of the globals of the returned function (objects named by their tags); then remake_function"""
    import irispie.makers as mk
    import irispie.aldi.adaptations as ad
    objs = {}

    def ctx_of(cx):
        if cx is None:
            return None
        return {k: objs.setdefault(t, _Obj(t)) for k, t in cx}
    ctxs = [ctx_of(cx) for _n, _a, _e, cx in sess]
    results = []
    for (name, args, expr, _cx), c in zip(sess, ctxs):
        try:
            results.append(mk.make_function(name, tuple(args), expr, c))
        except Exception as e:  # noqa
            return {"err": f"make_function raises {type(e).__name__}: {e}"[:200]}

    def items(d, func, skip=None):
        out = []
        for k, v in d.items():
            if k == skip:
                continue
            if isinstance(v, _Obj):
                out.append((k, v.tag))
            elif v is func:
                out.append((k, f"<function {func.__name__}>"))
            elif callable(v) and getattr(ad, k, None) is v:
                out.append((k, "adapt:" + k))
            elif isinstance(v, dict) and not v:
                out.append((k, "{}"))
            else:
                out.append((k, f"<unknown {type(v).__name__}>"))
        return out
    obs, obs_remake, unchanged = [], [], True
    for (name, args, expr, cx), c, (func, func_str, globals_) in zip(sess, ctxs, results):
        obs.append((func_str, items(globals_, func), items(func.__globals__, func, skip=name)))
        f2 = mk.remake_function(name, func_str, c)
        obs_remake.append((func_str, items(globals_, func), items(f2.__globals__, f2, skip=name)))
        if c is not None and [(k, v.tag) for k, v in c.items()] != list(cx):
            unchanged = False
    return {"make": obs, "remake": obs_remake, "context_unchanged": unchanged}


def _cq_alist(l):
    return "[" + "; ".join(f"({coq_string(k)}, {coq_string(v)})" for k, v in l) + "]"


def makers_shard(sessions_obs) -> str:
    L = ["From Coq Require Import String List.", "From Verif Require Import lib.MakersSyntax gen.MakersGen model.Makers.",
         "Import ListNotations.", "Open Scope string_scope."]
    for k, (sess, ob) in enumerate(sessions_obs):
        reqs = "; ".join(f"mkReq SV {coq_string(n)} [{'; '.join(coq_string(a) for a in args)}] {coq_string(e)} {_cq_alist(cx or [])}"
                         for n, args, e, cx in sess)
        L.append(f"Definition reqs_{k} : list s_request := [{reqs}].")
        for which in ("make", "remake"):
            im = "; ".join(f"({coq_string(s0)}, {_cq_alist(g)}, {_cq_alist(fg)})" for s0, g, fg in ob[which])
            L.append(f"Eval vm_compute in obs_failing (s_session reqs_{k}) [{im}] 0.")
    return "\n".join(L) + "\n"


def makers_correspondence(ctx, res: CorrResult):
    """case kind 'makers session': the executable session model (vm_compute) against makers.make_function /
    remake_function on the same sequences of calls"""
    import random
    r = random.Random(ctx.rng.getrandbits(64))
    n = ctx.scale(40, 2000)
    sessions = [gen_makers_session(r) for _ in range(n)]
    core.use_repo_in_process()
    observed = [run_makers_session(s) for s in sessions]
    calls = sum(len(s) for s in sessions)
    same_text = sum(1 for s in sessions if len({(a, tuple(b), c) for a, b, c, _ in s}) < len(s))
    res.distribution["makers_sessions"] = {"sessions": n, "calls": calls, "sessions_with_a_repeated_text": same_text,
                                           "remake_function_calls": calls}
    res.evaluations += 2 * calls
    res.distinct_nontrivial += len({repr(s) for s in sessions if len(s) >= 2})
    good = []
    for s, ob in zip(sessions, observed):
        if "err" in ob:
            res.disagreements.append(Disagreement("makers session: the implementation raises", {"calls": s}, "a result per call", ob["err"]))
        else:
            if not ob["context_unchanged"]:
                res.disagreements.append(Disagreement("makers session: make_function changes the context dict it is given",
                                                      {"calls": s}, "unchanged", "changed"))
            good.append((s, ob))
    per = 10
    shards = [good[i:i + per] for i in range(0, len(good), per)]
    results = core.run_cases(ctx, [makers_shard(sh) for sh in shards], prefix="makers")
    res.shards = (res.shards or 0) + len(shards)
    for k, (ok, out) in enumerate(results):
        if not ok:
            res.disagreements.append(Disagreement(f"makers shard {k} does not evaluate", None, out[-800:], None))
            continue
        bodies = core.parse_eval_lists(out)
        if len(bodies) != 2 * len(shards[k]):
            res.disagreements.append(Disagreement(f"makers shard {k}: unparsable output", None, out[-600:], None))
            continue
        for i, (s, ob) in enumerate(shards[k]):
            for j, which in enumerate(("make", "remake")):
                bad = core.parse_nat_list(bodies[2 * i + j])
                if bad:
                    res.disagreements.append(Disagreement(
                        f"makers session: {which}_function, call {bad[0] + 1} of {len(s)}: text / globals of the function differ "
                        f"from the model (the function determined by this call's own text and context)",
                        {"calls": s, "differing_calls": bad}, "model/Makers.v s_session", ob[which][bad[0]] if bad[0] < len(ob[which]) else None))


def correspondence(ctx) -> CorrResult:
    import random
    rng = ctx.rng
    n_models = ctx.scale(64, 3000)
    n_render = 3
    per = 20
    feats = excluded_features()
    res = CorrResult()
    dist = {"items": {}, "directives": {}, "pseudofunctions": {}, "max_nesting": 0, "steady_variants": 0,
            "equations_with_inline_directives": 0, "substitution_uses": 0, "context_values": 0,
            "implementation_errors": {}, "malformed": {}, "excluded_features": sorted(feats), "equations": 0, "quantities": 0}
    cases, texts, sessions = [], set(), []
    dist["sessions"] = {"count": 0, "sources": 0, "variants": {}}
    for i in range(n_models):
        if i % 2 == 0:
            # a session: two random renderings, a stable rendering and variants of one model, compiled one after the other
            sess = gen_session(rng, feats, n_random=2)
            dist["sessions"]["count"] += 1
            dist["sessions"]["sources"] += len(sess)
            for what, _m, _s in sess:
                dist["sessions"]["variants"][what] = dist["sessions"]["variants"].get(what, 0) + 1
            model_stats(sess[0][1], dist)
            sessions.append(sess)
        else:
            model = gen_case(rng, feats, malformed=0.12)
            model_stats(model, dist)
            if model.get("malformed"):
                dist["malformed"][model["malformed"]] = dist["malformed"].get(model["malformed"], 0) + 1
            sessions.append([("rendering", model, Render(random.Random(rng.getrandbits(64)), feats=feats).source(model))
                             for _ in range(n_render)])
    import time
    t0 = time.time()
    observed = run_impl_many([[(m, src) for _w, m, src in sess] for sess in sessions])
    ctx.log(f"correspondence: {sum(len(x) for x in sessions)} sources in {len(sessions)} sessions compiled by the "
            f"implementation in {time.time() - t0:.1f}s")
    for sess, obss in zip(sessions, observed):
        for j, ((what, model, src), obs) in enumerate(zip(sess, obss)):
            if "err" in obs:
                key = obs["err"].split(":")[0]
                dist["implementation_errors"][key] = dist["implementation_errors"].get(key, 0) + 1
            else:
                dist["equations"] += len(obs["dynamic"])
                dist["quantities"] += len(obs["quantities"])
            before = [{"what": w, "source": s0, "context": m0["context"], "model": m0} for w, m0, s0 in sess[:j]]
            cases.append((model, obs, src, before, what))
            texts.add(src)
    res.evaluations = len(cases)
    res.distinct_nontrivial = len({c[2] for c in cases if "err" not in c[1] and len(c[1]["dynamic"]) >= 1} & texts)
    res.distribution = dist
    res.rule = ("sessions: half of the models are compiled as a session in one Python process (two random renderings, a "
                "stable rendering, then variants sharing the equation text: sections/declarations reordered, extra names "
                "declared first, another context, another substitution body, parameter<->exogenous), every source compared; "
                "otherwise: one structured model (1-8 variables, shocks, parameters, name families declared by !for loops, units under "
                "!if, substitutions, steady variants, log lists with/without !all-but, !for/!if inside equations, context "
                "values) rendered 3 times with random syntactic alternatives; compile (Coq, vm_compute) must equal the "
                "quantities (name, kind, description, log status in id order), the dynamic and steady xtrings parsed by "
                "Python's ast, and the equation descriptions; non-trivial = the implementation built a model with at "
                "least one equation; distinct = distinct source text")
    res.samples = [{"source": c[2], "context": c[0]["context"], "xtrings": c[1].get("xtrings", c[1].get("err"))}
                   for c in cases[:3]]
    shards = [cases[i:i + per] for i in range(0, len(cases), per)]
    t0 = time.time()
    results = core.run_cases(ctx, [shard_text([(c[0], c[1]) for c in sh]) for sh in shards])
    ctx.log(f"correspondence: {len(shards)} Coq shards evaluated in {time.time() - t0:.1f}s")
    res.shards = len(shards)
    what = {1: "quantities", 2: "dynamic equations", 3: "steady equations", 4: "equation descriptions",
            5: "one side rejects the source"}
    for k, (ok, out) in enumerate(results):
        sh = shards[k]
        if not ok:
            res.disagreements.append(Disagreement(f"cases shard {k} does not evaluate", None, out[-800:], None))
            continue
        bodies = core.parse_eval_lists(out)
        diffs = core.parse_nat_list(bodies[0]) if len(bodies) == 1 else []
        if len(diffs) != len(sh):
            res.disagreements.append(Disagreement(f"cases shard {k}: unparsable output", None, out[-600:], None))
            continue
        for i in [j for j, d in enumerate(diffs) if d != 0]:
            m, o, s, before, vwhat = sh[i]
            res.disagreements.append(Disagreement(
                f"compile: {what.get(diffs[i] if i < len(diffs) else 0, '?')}" + (f" ({vwhat}, source {len(before) + 1} of a session)" if before else ""),
                {"source": s, "context": m["context"], "model": m, "compiled_before_in_the_same_process": before},
                "Coq model result differs",
                o.get("err") or {"xtrings": o["xtrings"], "quantities": o["quantities"]}))
    makers_correspondence(ctx, res)
    return res


# =====================================================================================
# 6. Falsifier: the property stated on the public API, against an independent reading of the source tree
# =====================================================================================

NPF = {"log": np.log, "exp": np.exp, "sqrt": np.sqrt, "abs": np.abs, "logistic": lambda x: 1 / (1 + np.exp(-x)),
       "maximum": np.maximum, "minimum": np.minimum, "cf1": _cf1, "cf2": _cf2}
PSEUDO_DEFAULT = {"shift": -1, "diff": -1, "diff_log": -1, "difflog": -1, "pct": -1, "roc": -1,
                  "mov_sum": -4, "movsum": -4, "mov_avg": -4, "movavg": -4, "mov_prod": -4, "movprod": -4}


_CUR_FUNCS = {}     # the user functions of the model being evaluated by the reference (set by check_equations)


def ref_eval(e, env, ctx, subs, shift=0):
    """value of the expression as written (documented meaning), env(name, k) -> array"""
    k = e[0]
    with np.errstate(all="ignore"):
        if k == "name":
            sh = e[2]
            kk = sh[1] if sh[0] == "z" else ieval(sh[1], ctx)
            return env(close(e[1]), kk + shift)
        if k == "num":
            return np.float64(e[1]) / np.float64(10 ** e[2])
        if k == "ctx":
            return np.float64(ieval(e[1], ctx))
        if k == "neg":
            return -ref_eval(e[1], env, ctx, subs, shift)
        if k == "paren":
            return ref_eval(e[1], env, ctx, subs, shift)
        if k == "bin":
            a, b = ref_eval(e[3], env, ctx, subs, shift), ref_eval(e[4], env, ctx, subs, shift)
            return {"Add": lambda: a + b, "Sub": lambda: a - b, "Mul": lambda: a * b, "Div": lambda: a / b,
                    "Pow": lambda: np.float64(a) ** b}[e[1]]()
        if k == "call":
            fn = _CUR_FUNCS[e[1]] if e[1] in _CUR_FUNCS else NPF[e[1]]
            return fn(*[ref_eval(a, env, ctx, subs, shift) for a in e[2]])
        if k == "subs":
            return ref_eval(subs[e[1]], env, ctx, subs, shift)
        if k == "pseudo":
            f = e[1]
            s = PSEUDO_DEFAULT[f] if e[3] is None else e[3]
            at = lambda j: ref_eval(e[2], env, ctx, subs, shift + j)   # noqa
            if f == "shift":
                return at(s)
            if f == "diff":
                return at(0) - at(s)
            if f in ("diff_log", "difflog"):
                return np.log(at(0)) - np.log(at(s))
            if f == "pct":
                return 100 * (at(0) / at(s) - 1)
            if f == "roc":
                return at(0) / at(s)
            n, st = abs(s), (1 if s > 0 else -1)
            terms = [at(i * st) for i in range(n)]
            if f in ("mov_sum", "movsum"):
                return sum(terms[1:], terms[0]) if terms else np.float64(0)
            if f in ("mov_avg", "movavg"):
                return (sum(terms[1:], terms[0]) if terms else np.float64(0)) / n
            out = terms[0]
            for x in terms[1:]:
                out = out * x
            return out
    raise AssertionError(e)


def expr_shifts(e, ctx, subs, acc, base=0):
    k = e[0]
    if k == "name":
        sh = e[2]
        acc.append(base + (sh[1] if sh[0] == "z" else ieval(sh[1], ctx)))
    elif k == "bin":
        expr_shifts(e[3], ctx, subs, acc, base); expr_shifts(e[4], ctx, subs, acc, base)
    elif k in ("neg", "paren"):
        expr_shifts(e[1], ctx, subs, acc, base)
    elif k == "call":
        for a in e[2]:
            expr_shifts(a, ctx, subs, acc, base)
    elif k == "subs":
        expr_shifts(subs[e[1]], ctx, subs, acc, base)
    elif k == "pseudo":
        s = PSEUDO_DEFAULT[e[1]] if e[3] is None else e[3]
        expr_shifts(e[2], ctx, subs, acc, base)
        expr_shifts(e[2], ctx, subs, acc, base + s)


def reference_model(model):
    """Independent reading of the structured source: declared quantities, log status, equations as written."""
    ctx = model["context"]
    items = py_resolve(model["nodes"], ctx)
    block = None
    decl, logs, allbut, eqs, subs = [], [], [], [], {}
    tags = {}
    for it in items:
        if it[0] == "qty" and len(it) > 3 and it[3]:
            tags.setdefault(it[3], []).append(close(it[2]))
    for it in items:
        if it[0] == "kw":
            block = (it[1], it[2])
            if it[1] == "log":
                allbut.append(bool(it[2]))
        elif it[0] == "qty":
            decl.append((close(it[2]), block[1], close(it[1]).strip()))
        elif it[0] == "log":
            logs.append(close(it[1]))
        elif it[0] == "loglist":
            logs += tags.get(it[1], [])
        elif it[0] == "subs":
            subs[it[1]] = it[3]
        elif it[0] == "eqn":
            def flat(s):
                if s is None:
                    return None
                return {"lhs": s["lhs"], "rhs": s["rhs"], "tails": [(t[1], t[2]) for t in py_resolve(s["tails"], ctx)]}
            eqs.append((block[1], close(it[1]).strip(), flat(it[2]), flat(it[3])))
    ab = allbut[0] if allbut else False
    quantities = {}
    for name, kind, descr in decl:
        logly = None
        if kind in ("TV", "MV", "EX"):
            logly = (not ab) if name in logs else ab
        quantities[name] = (KINDS[kind], descr, logly)
    eqs = [e for e in eqs if e[0] == "T"] + [e for e in eqs if e[0] == "M"]
    tshocks = [n for n, k, d in decl if k == "TS"]
    return {"quantities": quantities, "equations": eqs, "subs": subs, "tshocks": tshocks, "context": ctx}


def ref_residual(side, env, ctx, subs):
    rhs = ref_eval(side["rhs"], env, ctx, subs)
    for plus, t in side["tails"]:
        v = ref_eval(t, env, ctx, subs)
        rhs = rhs + v if plus else rhs - v
    return rhs - ref_eval(side["lhs"], env, ctx, subs)


def _same(a, b, tol=1e-8):
    """equal up to rounding; values that are not finite reals (nan, inf, complex powers of negative constants) match
    each other"""
    a = np.asarray(a, dtype=complex); b = np.asarray(b, dtype=complex)
    if a.shape != b.shape:
        a, b = np.broadcast_arrays(a, b)
    with np.errstate(all="ignore"):
        bad_a = ~np.isfinite(a.real) | ~np.isfinite(a.imag) | (a.imag != 0)
        bad_b = ~np.isfinite(b.real) | ~np.isfinite(b.imag) | (b.imag != 0)
        ok = np.abs(a - b) <= tol * (1 + np.abs(a) + np.abs(b))
    return bool(np.all(np.where(bad_a | bad_b, bad_a & bad_b, ok)))


def check_model(model, src, rng_seed, key_prefix="", alive=None) -> list:
    """All property checks for one source; returns Failures.  alive: list that receives the compiled model (kept by the
    caller to evaluate it again later in the session)"""
    import irispie as ir
    fails = []
    ref = reference_model(model)
    inp = {"source": src, "context": model["context"], "functions": model_funcs(model), "model": model, "data_seed": rng_seed}
    repro = ("irispie.Simultaneous.from_string(source, context=context | {cf1: lambda x: x*a1+b1, cf2: lambda x, y: a2*x+b2*y}) "
             "with [a1, b1], [a2, b2] = functions['cf1'], functions['cf2']")
    try:
        m = ir.Simultaneous.from_string(src, context=impl_context(model))
    except Exception as e:  # noqa
        return [Failure(key_prefix + "from_string:raises", f"a source of the documented language is rejected: "
                        f"{type(e).__name__}: {str(e)[:200]}", inp, f"{type(e).__name__}: {e}"[:300], "a model", repro)]
    # 1. names, kinds, descriptions, log status
    got = {q.human: (KIND_OF_ENUM[q.kind.name], (q.description or ""), q.logly) for q in m.get_quantities()}
    for n, want in ref["quantities"].items():
        if got.get(n) != want:
            fails.append(Failure(key_prefix + "quantities:declared", f"declared name {n!r} is exposed as {got.get(n)}, declared {want}",
                                 inp, got.get(n), want, repro + ".get_quantities()"))
            break
    extra = [n for n in got if n not in ref["quantities"] and not n.startswith(("ant_", "std_"))]
    if extra:
        fails.append(Failure(key_prefix + "quantities:extra", f"names that were not declared are exposed: {extra}", inp, extra, [], repro))
    names = m.get_names()
    if sorted(names) != sorted(got) or len(set(names)) != len(names):
        fails.append(Failure(key_prefix + "quantities:get_names", "get_names() and get_quantities() disagree", inp, list(names), sorted(got)))
    ls = m.get_log_status()
    want_ls = {n: v[2] for n, v in ref["quantities"].items() if v[2] is not None}
    if {k: bool(v) for k, v in ls.items()} != want_ls:
        fails.append(Failure(key_prefix + "quantities:log-status", "get_log_status() differs from the !log-variables declaration",
                             inp, {k: bool(v) for k, v in ls.items()}, want_ls, repro + ".get_log_status()"))
    fails += check_equations(m, model, ref, inp, rng_seed, key_prefix, repro)
    if alive is not None:
        alive.append((m, model, ref, inp, rng_seed, repro))
    return fails


def check_equations(m, model, ref, inp, rng_seed, key_prefix, repro) -> list:
    """2. equations evaluate to rhs - lhs as written, on arbitrary data, with the user functions of THIS model's context"""
    global _CUR_FUNCS
    _CUR_FUNCS = {n: make_user_function(n, c) for n, c in model_funcs(model).items()}
    try:
        return _check_equations(m, model, ref, inp, rng_seed, key_prefix, repro)
    finally:
        _CUR_FUNCS = {}


def _check_equations(m, model, ref, inp, rng_seed, key_prefix, repro) -> list:
    fails = []
    name_to_qid = m.create_name_to_qid()
    nq = len(name_to_qid)
    ctx, subs = ref["context"], ref["subs"]
    shifts = [0]
    for kind, descr, dy, st in ref["equations"]:
        for s in (dy, st):
            if s is not None:
                for e in [s["lhs"], s["rhs"]] + [t for _, t in s["tails"]]:
                    try:
                        expr_shifts(e, ctx, subs, shifts)
                    except KeyError:
                        pass
    lo, hi = min(shifts), max(shifts)
    ncol = (hi - lo) + 4
    rs = np.random.RandomState(rng_seed % (2 ** 31))
    data = rs.uniform(0.6, 1.9, size=(nq, ncol))
    cols = np.arange(-lo, ncol - hi)
    inv = m._invariant
    dyn_eqs = m.get_dynamic_equation_objects()
    if len(dyn_eqs) != len(ref["equations"]):
        fails.append(Failure(key_prefix + "equations:count", f"{len(dyn_eqs)} equations, the source has {len(ref['equations'])}", inp,
                             len(dyn_eqs), len(ref["equations"])))
        return fails
    for which, equator in (("dynamic", inv._plain_dynamic_equator), ("steady", inv._plain_steady_equator)):
        try:
            with np.errstate(all="ignore"):
                vals = equator.eval(data, cols)
        except Exception as e:  # noqa
            fails.append(Failure(key_prefix + f"eval:{which}:raises", f"the {which} equations cannot be evaluated: {type(e).__name__}: {str(e)[:150]}",
                                 inp, f"{type(e).__name__}: {e}"[:300], "rhs - lhs", repro + f"._invariant._plain_{which}_equator.eval(data, t)"))
            continue
        for i, (kind, descr, dy, st) in enumerate(ref["equations"]):
            side = dy if (which == "dynamic" or st is None) else st
            ant = ref["tshocks"] if (which == "dynamic" and kind == "T") else []

            def env(name, k, ant=ant):
                v = data[name_to_qid[name], cols + k]
                if name in ant:
                    v = v + data[name_to_qid["ant_" + name], cols + k]
                return v
            try:
                want = ref_residual(side, env, ctx, subs)
            except KeyError as e:
                fails.append(Failure(key_prefix + "quantities:missing", f"name {e} of the source is not a quantity of the model", inp))
                break
            gotv = np.asarray(vals[i])
            if not _same(gotv, want):
                eq = (dyn_eqs if which == "dynamic" else m.get_steady_equation_objects())[i]
                fails.append(Failure(key_prefix + f"eval:{which}", f"{which} equation {i} ({eq.human}) does not evaluate to rhs - lhs as written",
                                     dict(inp, equation=i, human=eq.human, xtring=eq.xtring),
                                     np.broadcast_to(gotv, np.shape(want)).tolist()[:4], np.asarray(want).tolist()[:4],
                                     repro + f"._invariant._plain_{which}_equator.eval(data, t)[{i}]"))
                break
        # descriptions of equations
    descr_got = [e.description or "" for e in dyn_eqs]
    descr_want = [e[1] for e in ref["equations"]]
    if descr_got != descr_want:
        fails.append(Failure(key_prefix + "equations:descriptions", "equation descriptions differ from the source", inp, descr_got, descr_want))
    return fails


def observed_signature(model, src):
    _, obs = run_impl(model, src)
    if "err" in obs:
        return ("err", obs["err"].split(":")[0])
    return ("ok", repr(obs["quantities"]), repr(obs["dynamic"]), repr(obs["steady"]), repr(obs["descriptions"]))


PROBES = [
    ("pseudo:shift-not-parenthesised", "shift-bare",
     "!variables a, b\n!parameters p\n!equations\n a = p*shift(a+b);\n b = 2*shift(b-a, -2)/a;\n"),
    ("preparser:if-without-else-then-if-else", "if-else",
     "!variables a, b\n!equations\n!if 1 < 2 !then\n a = 1;\n!end\n!if 1 < 2 !then\n b = 1;\n!else\n b = 2;\n!end\n"),
    ("anticipated-shock:shifted-shock", "shifted-shock",
     "!variables a\n!shocks e\n!equations\n a = 0.5*a{-1} + e + 0.3*e{-1};\n"),
]


def probe_models():
    def nm(n, k=0):
        return ("name", lit(n), ("z", k, "curly"))

    def eq(lhs, rhs):
        return ("item", ("eqn", [], {"lhs": lhs, "assign": False, "rhs": rhs, "tails": []}, None))
    kwv, kwp, kwe, kws = (("item", ("kw", "qty", "TV", 2)), ("item", ("kw", "qty", "P", 0)), ("item", ("kw", "eqn", "T", 2)),
                          ("item", ("kw", "qty", "TS", 2)))
    q = lambda n: ("item", ("qty", [], lit(n)))   # noqa
    one = ("num", 1, 0)
    m1 = {"context": {}, "nodes": [kwv, q("a"), q("b"), kwp, q("p"), kwe,
          eq(nm("a"), ("bin", "Mul", "caret", nm("p"), ("pseudo", "shift", ("bin", "Add", "caret", nm("a"), nm("b")), None))),
          eq(nm("b"), ("bin", "Div", "caret", ("bin", "Mul", "caret", ("num", 2, 0),
                                               ("pseudo", "shift", ("bin", "Sub", "caret", nm("b"), nm("a")), -2)), nm("a")))]}
    cd = ("cmp", "<", ("const", 1), ("const", 2))
    m2 = {"context": {}, "nodes": [kwv, q("a"), q("b"), kwe, ("if", cd, [eq(nm("a"), one)], None),
                                   ("if", cd, [eq(nm("b"), one)], [eq(nm("b"), ("num", 2, 0))])]}
    m3 = {"context": {}, "nodes": [kwv, q("a"), kws, q("e"), kwe,
          eq(nm("a"), ("bin", "Add", "caret", ("bin", "Add", "caret", ("bin", "Mul", "caret", ("num", 5, 1), nm("a", -1)), nm("e")),
                       ("bin", "Mul", "caret", ("num", 3, 1), nm("e", -1))))]}
    # controls: the same sources without the feature under test
    c1 = {"context": {}, "nodes": [kwv, q("a"), q("b"), kwp, q("p"), kwe,
          eq(nm("a"), ("bin", "Mul", "caret", nm("p"), ("paren", ("pseudo", "shift", ("bin", "Add", "caret", nm("a"), nm("b")), None)))),
          eq(nm("b"), ("bin", "Div", "caret", ("bin", "Mul", "caret", ("num", 2, 0),
                                               ("paren", ("pseudo", "shift", ("bin", "Sub", "caret", nm("b"), nm("a")), -2))), nm("a")))]}
    c2 = {"context": {}, "nodes": [kwv, q("a"), q("b"), kwe, ("if", cd, [eq(nm("b"), one)], [eq(nm("b"), ("num", 2, 0))]),
                                   ("if", cd, [eq(nm("a"), one)], None)]}
    c3 = {"context": {}, "nodes": [kwv, q("a"), kws, q("e"), kwe,
          eq(nm("a"), ("bin", "Add", "caret", ("bin", "Mul", "caret", ("num", 5, 1), nm("a", -1)),
                       ("bin", "Mul", "caret", ("num", 3, 1), nm("e"))))]}
    return [m1, m2, m3], [c1, c2, c3]


def sweep_model():
    """one equation per pseudofunction spelling and shift (None = default): systematic check of every template,
    default shift and table entry"""
    nodes = [("item", ("kw", "qty", "TV", 0))]
    eqs = [("item", ("kw", "eqn", "T", 0))]
    what = []
    i = 0
    for f in PSEUDO_NAMES:
        for k in (None, -1, -2, -3, 2):
            v = f"v{i}"
            i += 1
            nodes.append(("item", ("qty", [], lit(v))))
            arg = ("bin", "Add", "caret", ("name", lit("v0"), ("z", -1, "curly")),
                   ("bin", "Mul", "caret", ("name", lit(v), ("z", 1, "square")), ("name", lit("v1"), ("z", 0, "curly"))))
            rhs = ("bin", "Mul", "caret", ("num", 5, 1), ("pseudo", f, arg, k))
            eqs.append(("item", ("eqn", [], {"lhs": ("name", lit(v), ("z", 0, "curly")), "assign": False, "rhs": rhs,
                                              "tails": []}, None)))
            what.append((f, k))
    return {"context": {}, "nodes": nodes + eqs}, what


def _session_input(sess, j, seed, f):
    return {"session": [{"what": w, "source": s0, "context": m0["context"], "functions": model_funcs(m0), "model": m0}
                        for w, m0, s0 in sess[:j + 1]],
            "failing": j, "data_seed": seed, "detail": {k: v for k, v in (f.input or {}).items()
                                                        if k in ("equation", "human", "xtring")}}


SESSION_REPRO = ("in ONE Python process: models = [irispie.Simultaneous.from_string(s['source'], context=s['context'] | "
                 "{'cf1': lambda x: x*a1+b1, 'cf2': lambda x, y: a2*x+b2*y}) for s in input['session']] with "
                 "[a1, b1], [a2, b2] = s['functions']['cf1'], s['functions']['cf2']; check models[input['failing']]")


def check_session(sess, seed, key_prefix="session:"):
    """compile and check the sources of a session one after the other in this process, all models kept alive; then
    evaluate every model of the session once more (last compiled first: what was compiled later must not have changed
    it), and a deep copy of it.  A failure names the source and carries the whole sequence compiled so far as its input"""
    import copy
    out = []
    alive = []
    for j, (what, model, src) in enumerate(sess):
        fs = check_model(model, src, seed + j, alive=alive)
        if fs:
            f = fs[0]
            alone = "" if j == 0 else " (source %d of a session: %s of the model compiled first)" % (j + 1, what)
            # a later model that has the text of an earlier one and other callables for the user functions: own key
            pre = "" if j == 0 else (key_prefix + "functions:" if what == "other-functions" else key_prefix)
            out.append(Failure(pre + f.key, f.what + alone, _session_input(sess, j, seed, f),
                               f.observed, f.required, SESSION_REPRO))
            return out
    if len(alive) != len(sess):
        return out
    for j in reversed(range(len(sess))):
        m, model, ref, inp, rng_seed, repro = alive[j]
        for how, obj in (("alive", lambda: m), ("copy", lambda: copy.deepcopy(m))):
            if how == "alive" and j == len(sess) - 1:
                continue
            try:
                fs = check_equations(obj(), model, ref, inp, rng_seed, "", repro)
            except Exception as e:  # noqa
                fs = [Failure("eval:raises", f"{type(e).__name__}: {str(e)[:200]}", inp)]
            if fs:
                f = fs[0]
                note = (" (source %d of %d of a session, evaluated again after the later ones were compiled)" % (j + 1, len(sess))
                        if how == "alive" else " (deep copy of model %d of %d of a session)" % (j + 1, len(sess)))
                inp2 = _session_input(sess, len(sess) - 1, seed, f)
                inp2["failing"], inp2["how"] = j, how
                out.append(Failure(f"{key_prefix}{how}:{f.key}", f.what + note, inp2, f.observed, f.required,
                                   SESSION_REPRO + (" after all of them were created" if how == "alive" else
                                                    " on copy.deepcopy of it")))
                return out
    return out


def functions_probe():
    """fixed session: the SAME source text four times, the context binding cf1 / cf2 to other callables each time"""
    def nm(n, k=0):
        return ("name", lit(n), ("z", k, "curly"))

    def q(n):
        return ("item", ("qty", [], lit(n)))

    def eq(lhs, rhs, steady=None):
        sd = None if steady is None else {"lhs": lhs, "assign": False, "rhs": steady, "tails": []}
        return ("item", ("eqn", [], {"lhs": lhs, "assign": False, "rhs": rhs, "tails": []}, sd))
    B = lambda o, a, b: ("bin", o, "caret", a, b)   # noqa
    kw = lambda k, x: ("item", ("kw", k, x, 0))   # noqa
    eqs = [eq(nm("y"), B("Add", B("Add", B("Mul", nm("a"), nm("y", -1)), ("call", "cf1", [nm("b")])), nm("e"))),
           eq(nm("r"), B("Add", B("Mul", nm("b"), nm("r", 1)), ("call", "cf2", [nm("y"), nm("r", -1)])),
              ("call", "cf1", [nm("y", -1)]))]
    nodes = [kw("qty", "TV"), q("y"), q("r"), kw("qty", "P"), q("a"), q("b"), kw("qty", "TS"), q("e"), kw("eqn", "T")] + eqs
    import random
    out = []
    for i, (what, funcs) in enumerate([("base", None), ("other-functions", {"cf1": [2.0, 0.0], "cf2": [0.5, 1.0]}),
                                       ("other-functions", {"cf1": [0.25, 2.0], "cf2": [1.0, 1.0]}), ("base-again", None)]):
        m = {"context": {}, "nodes": nodes}
        if funcs:
            m["funcs"] = funcs
        out.append((what, m, Render(random.Random(3), noisy=False, stable=True).source(m)))
    return out


def session_probe():
    """fixed session: the same equations, declarations in another order / one more name declared first"""
    def nm(n, k=0):
        return ("name", lit(n), ("z", k, "curly"))

    def q(n):
        return ("item", ("qty", [], lit(n)))

    def eq(lhs, rhs, steady=None):
        sd = None if steady is None else {"lhs": lhs, "assign": False, "rhs": steady, "tails": []}
        return ("item", ("eqn", [], {"lhs": lhs, "assign": False, "rhs": rhs, "tails": []}, sd))
    B = lambda o, a, b: ("bin", o, "caret", a, b)   # noqa
    eqs = [eq(nm("x"), B("Add", B("Add", B("Mul", nm("a"), nm("x", -1)), B("Mul", ("paren", B("Sub", ("num", 1, 0), nm("a"))),
                                                                        B("Pow", nm("y", 1), ("num", 2, 0)))), nm("e_x"))),
           eq(nm("y"), B("Sub", B("Mul", nm("b"), ("call", "log", [nm("z")])), nm("x", -2)),
              B("Sub", B("Mul", nm("b"), ("call", "log", [nm("z")])), nm("x"))),
           eq(nm("z"), B("Add", B("Add", ("pseudo", "diff", nm("x"), None), B("Mul", nm("a"), nm("b"))), nm("e_z")))]
    kw = lambda k, x: ("item", ("kw", k, x, 0))   # noqa
    m1 = {"context": {}, "nodes": [kw("qty", "TV"), q("x"), q("y"), q("z"), kw("qty", "TS"), q("e_x"), q("e_z"),
                                   kw("qty", "P"), q("a"), q("b"), kw("eqn", "T")] + eqs}
    m2 = {"context": {}, "nodes": [kw("qty", "P"), q("b"), q("a"), kw("qty", "TS"), q("e_z"), q("e_x"),
                                   kw("qty", "TV"), q("z"), q("y"), q("x"), kw("eqn", "T")] + eqs}
    m3 = {"context": {}, "nodes": [kw("qty", "TV"), q("w"), q("x"), q("y"), q("z"), kw("qty", "TS"), q("e_x"), q("e_z"),
                                   kw("qty", "P"), q("a"), q("b"), kw("eqn", "T"),
                                   eq(nm("w"), B("Add", B("Mul", ("num", 5, 1), nm("w", -1)), nm("x")))] + eqs}
    import random
    rd = lambda m: Render(random.Random(3), noisy=False, stable=True).source(m)   # noqa
    return [("base", m1, rd(m1)), ("reordered", m2, rd(m2)), ("extra-names-first", m3, rd(m3)), ("base-again", m1, rd(m1))]


def _session_worker(job):
    sess, seed = job
    return check_session(sess, seed), {"sessions": 1, "session_sources": len(sess)}


def _falsify_worker(job):
    import random
    i, model, seeds, feats = job
    cnt = {"models": 1, "renderings": 1, "equation_evaluations": 0, "variant_pairs": 0}
    srcs = [Render(random.Random(s), feats=feats).source(model) for s in seeds]
    fs = check_model(model, srcs[0], seeds[0])
    cnt["equation_evaluations"] = 2 * len(reference_model(model)["equations"])
    if not fs:
        sig0 = observed_signature(model, srcs[0])
        variants = [("rendering", srcs[1])]
        if i % 2 == 0:
            variants.append(("unrolled", Render(random.Random(seeds[1]), feats=feats).source(unroll(model))))
        for what, s2 in variants:
            cnt["variant_pairs"] += 1
            if observed_signature(model, s2) != sig0:
                fs.append(Failure(f"variants:{what}", f"two sources that differ only by meaning-preserving variations ({what}) "
                                  "give different models", {"source_a": srcs[0], "source_b": s2, "context": model["context"],
                                                           "model": model}, None, None,
                                  "compare Simultaneous.from_string(a) and (b): quantities and xtrings"))
    return fs, cnt


def falsify(ctx, hints):
    import random
    rng = ctx.rng
    fails: list[Failure] = []
    info = {"probes": {}, "models": 0, "renderings": 0, "equation_evaluations": 0, "variant_pairs": 0}
    # 1. targeted probes (stable keys for the three repaired defects)
    broken_feats = set()
    probes, controls = probe_models()
    for (key, feat, _txt), model, control in zip(PROBES, probes, controls):
        plain = Render(random.Random(0), restyle=False, noisy=False)
        fs = check_model(model, plain.source(model), 12345)
        info["probes"][key] = "ok" if not fs else fs[0].what[:120]
        if fs:
            f = fs[0]
            broken_feats.add(feat)
            if check_model(control, plain.source(control), 12345):
                # the same source without the feature fails as well: not this defect
                fails.append(Failure("probe-control:" + f.key, f.what, f.input, f.observed, f.required, f.repro))
            else:
                fails.append(Failure(key, f.what, f.input, f.observed, f.required, f.repro))
    # 1b. every pseudofunction spelling x shift
    model, what = sweep_model()
    src = Render(random.Random(1), restyle=False, noisy=False).source(model)
    fs = check_model(model, src, 4242, key_prefix="pseudo-sweep:")
    info["probes"]["pseudo-sweep"] = "ok" if not fs else fs[0].what[:160]
    for f in fs:
        eqi = (f.input or {}).get("equation")
        if eqi is not None and eqi < len(what):
            if what[eqi][0] == "shift" and "shift-bare" in broken_feats:
                continue          # already reported as pseudo:shift-not-parenthesised
            f.key = f"pseudo:formula:{what[eqi][0]}"
            f.what = f"{what[eqi][0]}(e{'' if what[eqi][1] is None else ', ' + str(what[eqi][1])}): " + f.what
        fails.append(f)
    feats = excluded_features() | broken_feats
    import multiprocessing as mp
    import irispie  # noqa: imported before the fork
    # 1c. a fixed session (state that leaks from one compilation into the next), in a fresh process
    with mp.get_context("fork").Pool(1) as pool:
        fs, _ = pool.apply(_session_worker, ((session_probe(), 99),))
    info["probes"]["session"] = "ok" if not fs else fs[0].what[:160]
    fails += fs
    # 1d. a fixed session of one source text compiled with contexts that bind the user functions to other callables
    with mp.get_context("fork").Pool(1) as pool:
        fs, _ = pool.apply(_session_worker, ((functions_probe(), 4711),))
    info["probes"]["session-functions"] = "ok" if not fs else fs[0].what[:160]
    fails += fs
    # 2. inputs on which model and implementation disagreed (with what was compiled before them in the same process)
    for d in hints.get("disagreements", [])[:10]:
        inp = d.get("input") or {}
        if isinstance(inp, dict) and inp.get("model"):
            before = [(b["what"], b["model"], b["source"]) for b in inp.get("compiled_before_in_the_same_process") or []]
            sess = before + [("disagreement", inp["model"], inp["source"])]
            with mp.get_context("fork").Pool(1) as pool:
                fs, _ = pool.apply(_session_worker, ((sess, 777),))
            fails += fs
    # 3. generated models: evaluation against the independent reading; variants give identical models
    n = ctx.scale(16, 1000)
    jobs = []
    for i in range(n):
        model = gen_case(rng, feats)
        jobs.append((i, model, [rng.getrandbits(64) for _ in range(2)], feats))
    sjobs = [(gen_session(rng, feats), rng.getrandbits(32)) for _ in range(ctx.scale(14, 500))]
    info["sessions"] = info["session_sources"] = 0
    with mp.get_context("fork").Pool(min(core.NCPU, 16)) as pool:
        results = pool.map(_falsify_worker, jobs, chunksize=1) + pool.map(_session_worker, sjobs, chunksize=1)
    for fs, cnt in results:
        fails += fs
        for k, v in cnt.items():
            info[k] += v
    seen, uniq = set(), []
    for f in fails:
        if f.key not in seen:
            seen.add(f.key); uniq.append(f)
    return uniq, info


def replay(ctx, failure: dict):
    inp = failure.get("input") or {}
    if "session" in inp:
        sess = [(x["what"], x["model"], x["source"]) for x in inp["session"]]
        for x, (_w, mdl, _s) in zip(inp["session"], sess):
            if x.get("functions") and "funcs" not in mdl:
                mdl["funcs"] = x["functions"]
        for f in check_session(sess, inp.get("data_seed", 1)):
            if f.input["failing"] == inp.get("failing") and f.input.get("how") == inp.get("how"):
                return Failure(failure["key"], f.what, f.input, f.observed, f.required, f.repro)
        return None
    if "model" in inp and "source" in inp:
        for f in check_model(inp["model"], inp["source"], inp.get("data_seed", 1)):
            return Failure(failure["key"], f.what, f.input, f.observed, f.required, f.repro)
        return None
    if "source_a" in inp:
        a, b = observed_signature(inp["model"], inp["source_a"]), observed_signature(inp["model"], inp["source_b"])
        return None if a == b else Failure(failure["key"], failure["what"], inp)
    return None
