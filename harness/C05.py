"""C05  Steady state returned by solve_steady satisfies the steady-state equations.

Pipeline: translator/steady.py -> gen/SteadyGen.v (cell formulas, constants, stacked linear systems);
model/Steady.v (hand model defined in terms of the generated fragments); proofs/SteadyProofs.v; props/C05.v.
Correspondence: generated models are run through Simultaneous.steady in fresh single-threaded interpreters with
the solver (steadiers.solver_dispatcher.neqs_levenberg), _resolve_steady_wrt, blazer.blaze and
fords.steadiers.solve_steady_linear_* wrapped from outside; one Coq case per parameter variant compares, bit for
bit, wrt/fixed qids, per block the index masks, the initial guess and eval_func(final_guess), and the stored
levels/changes after write-back; for linear models the write-back and the lstsq contract.
Steady plans: translator/steadyplan.py -> gen/SteadyPlanGen.v (method -> register table of the exec template, guard of
fix / unfix, swap order, registers of flat mode, set algebra of _resolve_steady_wrt, descriptor of _steady_linear);
model/SteadyPlan.v (register machine over call histories, defined in terms of the fragments); proofs/SteadyPlanProofs.v.
Correspondence: per generated model one random history of public SteadyPlan calls played on a fresh SteadyPlan and on
the register machine; registers + raised flag after every call, _resolve_steady_wrt qids and the split default compared
exactly.
Falsifier: the property on the public getters with an independent evaluator of the SOURCE equations (the `!!` steady
versions where present, incl. materially different ones and pinned unit roots, also for linear=True models); plans are
set up by generated call HISTORIES (fix / unfix / swap / lists / undone calls) whose meaning is stated independently
(effective_plan); fixed quantities must keep assigned level AND change (growth mode: unit root whose drift is endogenized).

Behaviour seen while building (none of it contradicts the property text on an admissible input, nothing reported):
  * the solver's absolute tolerance lets it report success at degenerate points of growth models (levels ~1e-13,
    or non-zero changes in a stationary product-form model); such paths satisfy the equations at t and t+1 only
    -> counted as `every_date_partial_misses` in the evidence, see C05_two_dates_do_not_suffice;
  * split_into_blocks=True together with a fix_level + endogenize plan raises RuntimeError(StopIteration) inside
    blazer (non-square incidence matrix); the default for such plans is split_into_blocks=False;
  * _steady_linear delogarithmizes the zero-shift vector at the positions given by the log-variables' QIDS
    (simultaneous/_logly.py::_apply) and _steady_nonlinear picks block equations by wrt.equations[eid]: both rely on
    transition/measurement variables and equations being numbered first; modelled as coded;
  * FlatSteadyEvaluator.__init__ resets the changes of ALL quantities of the variant (also fixed ones)."""
from __future__ import annotations

import ast
import contextlib
import io
import math
import os

import numpy as np

from vf import core
from vf.core import CorrResult, Disagreement, Failure, coq_float, coq_list
from translator import steady as tr
from translator import steadyplan as trp

ID = "C05"
PROPS = "props/C05.v"
GENERATED = [tr.OUT, trp.OUT]
CASE_DEPS = ["lib/CaseUtil.vo", "model/Steady.vo", "model/SteadyPlan.vo"]
ALLOWED_AXIOMS = {
    "sig_forall_dec", "sig_not_dec", "functional_extensionality_dep",
    "ClassicalDedekindReals.sig_forall_dec", "ClassicalDedekindReals.sig_not_dec",
    "FunctionalExtensionality.functional_extensionality_dep",
    "classic", "Classical_Prop.classic",
}
TRUSTED = [
    "translator/steady.py + translator/pyexpr.py (path/cell formulas, constants, stacked linear systems -> gen/SteadyGen.v)",
    "translator/steadyplan.py (SteadyPlan method table / fix-unfix guards / swap order, _SteadyPlannable registers, set algebra of "
    "_resolve_steady_wrt, descriptor systemized by _steady_linear -> gen/SteadyPlanGen.v; surrounding statements pinned by text)",
    "the solvers offered by steadiers/solver_dispatcher.py (neqs Levenberg, scipy.optimize.root) and numpy.linalg.lstsq are ORACLES: the harness records their outputs by "
    "wrapping them from outside; theorems say what follows when the residual they report is below the tolerance",
    "numpy log/exp/power are black boxes: their values at the arguments the model needs are recorded per run and looked "
    "up by the float model",
    "the steady equations are taken from Equation.xtring (the parser's output, property C04) and parsed with Python's ast; "
    "the falsifier evaluates the SOURCE equations with an independent evaluator",
    "the block list of incidences/blazer.py is taken as given (property C16)",
]
ASSUMPTIONS = [
    "theorems are over Coq's real numbers (no rounding); the float model is used only for the correspondence",
    "'at every date' is a theorem for flat paths, for residuals affine in time and for monomial = monomial equations on "
    "geometric paths; for general nonlinear growth models it is an assumption of balanced growth (every_date_partial) and "
    "is covered by the falsifier at several dates",
    "log-variables have positive steady levels and changes (a stored level or gross rate of exactly 0.0, i.e. exp underflow at a "
    "degenerate point accepted under the solver's absolute tolerance, is counted as degenerate_log_paths, not judged)",
]
MANIFEST = {
    "technique": "Coq proof over the reals of an executable model of the steady-state plumbing (cell formulas, constants and "
                 "stacked linear systems regenerated from the source on every run); bit-exact PrimFloat correspondence of the "
                 "same model text driven through Simultaneous.steady with the solver / lstsq recorded as oracles; steady plans as a "
                 "register machine (statement shapes regenerated from the source) run against SteadyPlan on generated call histories",
    "level_text": "Theorems (props/C05.v), for all models, sizes, blocks, guesses: (1) the steady array row of a quantity is "
                  "level+change*shift, or level*change^shift for log-variables, at every column; (2) writing the final guess back "
                  "and reading it again returns the guess on the solved cells, every other cell of the variant is unchanged (fixed / "
                  "exogenized quantities, non-endogenized parameters); (3) the vector handed to the solver is exactly the block's "
                  "steady equations on the path of the levels/changes stored after write-back, at t (flat) / t and t+1 (growth), so "
                  "max-norm < tol means each equation is within tol there; (4) at every date: flat paths, residuals affine in time, "
                  "monomial = monomial equations on geometric paths; (5) blocks solved one after another in a block-triangular order "
                  "(or one joint block) leave ALL equations holding on the finally stored path -- proved for the model of the whole "
                  "_steady_nonlinear loop incl. plan bookkeeping; (6) an exact solution of the stacked linear system satisfies the "
                  "transition and measurement equations on Xi+t*dXi at every date; (7) steady plans as a register machine over "
                  "EVERY history of public calls: fix(names) fixes level and (growth mode) change, unfix undoes both, a status lasts "
                  "until the quantity is named again, key sets never change, unknowns = endogenous - exogenized + endogenized with "
                  "level/change unknowns per block, and a quantity fixed by the plan keeps its assigned level (growth: and change) "
                  "through the whole _steady_nonlinear loop; (8) the linear steady state is computed from the steady descriptor.",
    "level_note": "partial. Not proved: solver convergence (oracle; conclusions are conditional on its reported residual); 'every "
                  "date' for general nonlinear growth models (refuted for the algorithm: C05_two_dates_do_not_suffice; the general "
                  "statement is C05_every_date_partial = dates t and t+1, other dates are searched by the falsifier); rounding "
                  "(theorems over R, code tied bit-exactly on floats with numpy log/exp/power as recorded tables). Trusted: Coq kernel "
                  "+ vm_compute, translator/steady.py, the harness, Equation.xtring as the parser's output (C04), blazer's block "
                  "list (C16), the first-order system matrices of linear models (C01/C02), Reals axioms.",
}


def translate(ctx):
    tr.run()
    trp.run()


# =====================================================================================================
# source trees of the generated models (the falsifier evaluates THESE, independently of irispie's parser)
# =====================================================================================================

def num(v):
    return ("num", float(v))


def integer(v):
    return ("int", int(v))


def var(name, s=0):
    return ("var", name, int(s))


def par(name):
    return ("par", name)


def shk(name):
    return ("shk", name)


def add(a, b):
    return ("+", a, b)


def sub(a, b):
    return ("-", a, b)


def mul(a, b):
    return ("*", a, b)


def div(a, b):
    return ("/", a, b)


def pw(a, b):
    return ("^", a, b)


def neg(a):
    return ("neg", a)


def fexp(a):
    return ("exp", a)


def flog(a):
    return ("log", a)


def sum_terms(ts):
    out = ts[0]
    for t in ts[1:]:
        out = add(out, t)
    return out


_PREC = {"+": 1, "-": 1, "*": 2, "/": 2, "neg": 3, "^": 4}


def render(t, full=True) -> str:
    """irispie source text of a tree; `full` = fully parenthesised, otherwise minimal parentheses."""
    k = t[0]
    if k == "num":
        s = repr(abs(t[1]))
        return s if t[1] >= 0 else f"(-{s})"
    if k == "int":
        return str(t[1]) if t[1] >= 0 else f"(-{-t[1]})"
    if k == "var":
        return t[1] if t[2] == 0 else f"{t[1]}{{{t[2]:+d}}}"
    if k in ("par", "shk"):
        return t[1]
    if k in ("exp", "log"):
        return f"{k}({render(t[1], full)})"
    if k == "neg":
        return f"(-({render(t[1], full)}))"
    a, b = t[1], t[2]
    ra, rb = render(a, full), render(b, full)
    if full:
        return f"({ra}{k}{rb})"

    def prec(x):
        return _PREC.get(x[0], 9) if not (x[0] in ("num", "int") and x[1] < 0) else 9
    p = _PREC[k]
    if k == "^":
        if prec(a) <= 4 and a[0] in _PREC:
            ra = f"({ra})"
        if prec(b) <= 4 and b[0] in _PREC:
            rb = f"({rb})"
    else:
        if prec(a) < p:
            ra = f"({ra})"
        if prec(b) < p or (prec(b) == p and k in ("-", "/")) or (prec(b) == p and b[0] != k):
            rb = f"({rb})"
    return f"{ra}{k}{rb}"


def tree_eval(t, val):
    """independent evaluation with Python floats; val(kind, name, shift) -> float"""
    k = t[0]
    if k in ("num", "int"):
        return float(t[1])
    if k == "var":
        return val("var", t[1], t[2])
    if k in ("par", "shk"):
        return val(k, t[1], 0)
    if k == "neg":
        return -tree_eval(t[1], val)
    if k == "exp":
        return math.exp(tree_eval(t[1], val))
    if k == "log":
        return math.log(tree_eval(t[1], val))
    a, b = tree_eval(t[1], val), tree_eval(t[2], val)
    if k == "+":
        return a + b
    if k == "-":
        return a - b
    if k == "*":
        return a * b
    if k == "/":
        return a / b
    if k == "^":
        return math.pow(a, b)
    raise ValueError(k)


def tree_scale(t, val):
    """sum of the magnitudes of the additive terms (used to scale the falsifier's tolerance)"""
    k = t[0]
    if k in ("+", "-"):
        return tree_scale(t[1], val) + tree_scale(t[2], val)
    if k == "neg":
        return tree_scale(t[1], val)
    try:
        return abs(tree_eval(t, val))
    except (ValueError, OverflowError, ZeroDivisionError):
        return float("inf")


# =====================================================================================================
# generator of models possessing a steady state
# =====================================================================================================

_NAMES = ["x", "y", "z", "w", "v", "q", "r", "h", "m", "n"]
_TREND = ["u", "tt", "lev", "idx"]


def _r(rng, lo, hi, nd=3):
    return round(rng.uniform(lo, hi), nd)


def _coef(rng, hi=0.3):
    return round(rng.choice([-1, 1]) * rng.uniform(0.05, hi), 3)


SOLVERS = ("neqs_levenberg", "scipy_root")        # the solvers steadiers/solver_dispatcher.py offers


def gen_spec(rng) -> dict:
    fam = rng.choice(["stat", "stat", "stat", "trend", "trend", "bgp", "hard"])
    if fam == "bgp":
        spec = _gen_bgp(rng)
    elif fam == "hard":
        spec = _gen_hard(rng)
    else:
        spec = _gen_stat(rng, with_trend=(fam == "trend"))
    spec["family"] = fam
    spec["full_parens"] = rng.random() < 0.6
    r = rng.random()
    spec["split"] = None if r < 0.3 else (r < 0.65)
    spec["nv"] = 2 if rng.random() < 0.3 else 1
    _gen_values(rng, spec)
    if fam == "hard":
        spec["plan"] = None
        _hard_starts(rng, spec)
    else:
        _gen_plan(rng, spec)
        if rng.random() < 0.12:
            _far_starts(rng, spec)
    _gen_solver(rng, spec)
    spec["plan_hist"] = gen_plan_history(rng, spec)
    return spec


def gen_plan_history(rng, spec) -> list:
    """a random history of public SteadyPlan calls for the register-machine correspondence (NOT used for solving): all
    twelve methods, names one by one / as lists / Ellipsis ("..."), now and then a name the register does not have"""
    endog, params = list(spec["vars"]), list(spec["params"])
    other = ["nope"] + list(spec["shocks"][:1])

    def pick(pool, alt):
        r = rng.random()
        return rng.choice(other) if r < 0.05 else rng.choice(alt) if (r < 0.1 and alt) else rng.choice(pool)
    hist = []
    for _ in range(rng.choice([1, 2, 3, 4, 5, 6, 8, 10])):
        meth = rng.choice(PLAN_METHODS)
        if meth in ("swap", "unswap"):
            hist.append([meth, [[pick(endog, params), pick(params, endog)] for _ in range(rng.choice([1, 1, 2]))]])
            continue
        pool, alt = (params, endog) if "endogenize" in meth else (endog, params)
        r = rng.random()
        if r < 0.12:
            arg = "..."
        elif r < 0.6:
            arg = pick(pool, alt)
        else:
            arg = [pick(pool, alt) for _ in range(rng.choice([0, 1, 2, 2, 3]))]
        hist.append([meth, arg])
    return hist


def _gen_solver(rng, spec):
    """solver / solver_settings / method name passed to the public call (None = not passed)"""
    r = rng.random()
    hard = spec["family"] == "hard"
    if r < (0.25 if hard else 0.55):
        spec["solver"] = None
    elif r < (0.45 if hard else 0.7):
        spec["solver"] = "neqs_levenberg"
    else:
        spec["solver"] = "scipy_root"
    st = None
    if rng.random() < 0.35:
        tol = rng.choice([1e-12, 1e-11, 1e-10, 1e-9])
        if spec["solver"] == "scipy_root":
            st = {"tol": tol}
            if rng.random() < 0.3:
                st["method"] = "lm"
        else:
            st = rng.choice([{"func_tolerance": tol}, {"func_tolerance": tol, "max_iterations": rng.choice([50, 200, 1000])},
                             {"max_iterations": rng.choice([30, 100, 500])}, {"step_tolerance": float("inf")}])
    spec["solver_settings"] = st
    spec["method"] = "solve_steady" if rng.random() < 0.5 else "steady"


def _far_starts(rng, spec):
    """starting values far from the steady state (the solver may or may not converge from there)"""
    for nm in spec["vars"]:
        for i in range(spec["nv"]):
            if nm in (spec["plan"] or EMPTY_PLAN)["exogenize"] + (spec["plan"] or EMPTY_PLAN)["fix_level"]:
                continue
            lv = _r(rng, 0.02, 30.0) if nm in spec["logs"] else round(rng.choice([-1, 1]) * rng.uniform(0.01, 30.0), 3)
            cur = spec["start"][nm][i]
            spec["start"][nm][i] = [lv, (cur[1] if cur else None)]
    spec["far_starts"] = True


def _gen_hard(rng) -> dict:
    """models that possess a steady state but whose residual norm has non-zero local minima / flat directions, started
    at, near or far from the bad points:  x^3 - p x + q = a (x{-1} - x)  with one real root and a local minimum of |f| at
    sqrt(p/3);  x exp(-x) = c (1 + x{-1} - x)  whose residual flattens out for large x"""
    params, shocks, eqs = {}, [], []
    kind = rng.choice(["cubic", "cubic", "xexp"])
    x = rng.choice(["x", "s", "d"])
    a = f"a_{x}"
    params[a] = _r(rng, 0.2, 1.5)
    info = {"kind": kind, "x": x}
    if kind == "cubic":
        p = rng.choice([2.0, 2.0, _r(rng, 1.0, 3.0, 2)])
        q = 2.0 if p == 2.0 and rng.random() < 0.6 else round(2 * (p / 3) ** 1.5 * rng.uniform(1.3, 3.0), 2)
        params["pp"], params["qq"] = p, q
        lhs = add(sub(pw(var(x), integer(3)), mul(par("pp"), var(x))), par("qq"))
        rhs = mul(par(a), sub(var(x, -1), var(x)))
        info.update(p=p, q=q)
    else:
        c = _r(rng, 0.1, 0.3)
        params["cc"] = c
        lhs = mul(var(x), fexp(neg(var(x))))
        rhs = mul(par("cc"), sub(add(integer(1), var(x, -1)), var(x)))
        info.update(c=c)
    eqs.append({"lhs": lhs, "rhs": rhs, "form": kind, "own": x})
    names, logs = [x], []
    for nm in rng.sample(["y", "z", "w"], rng.choice([0, 1, 1, 2])):
        b, e = f"b_{nm}", f"e_{nm}"
        params[b] = _r(rng, 0.3, 1.5)
        shocks.append(e)
        if rng.random() < 0.35:
            logs.append(nm)
            eqs.append({"lhs": var(nm), "rhs": mul(mul(par(b), pw(var(nm, -1), num(0.5))), fexp(add(mul(num(0.2), var(x)), shk(e)))),
                        "form": "hardgeo", "own": nm})
        else:
            eqs.append({"lhs": var(nm), "rhs": sum_terms([mul(par(b), var(x, rng.choice([0, -1]))), mul(num(0.5), var(nm, -1)), shk(e)]),
                        "form": "hardlin", "own": nm})
        names.append(nm)
    if not shocks:
        shocks.append("e_" + x)
        eqs[0]["rhs"] = add(eqs[0]["rhs"], shk("e_" + x))
    order = list(range(len(eqs)))
    rng.shuffle(order)
    eqs = [eqs[i] for i in order]
    decl = list(names)
    rng.shuffle(decl)
    return {"vars": decl, "logs": [v for v in decl if v in logs], "params": params, "shocks": shocks, "eqs": eqs,
            "linear": False, "flat": rng.random() < 0.7, "trend": [], "followers": [], "hard": info}


def _hard_starts(rng, spec):
    h = spec["hard"]
    for k in ("pp", "qq", "cc"):                      # the same hard equation in every variant
        if k in spec["param_values"]:
            spec["param_values"][k] = [spec["params"][k]] * spec["nv"]
    for i in range(spec["nv"]):
        r = rng.random()
        if h["kind"] == "cubic":
            bad = math.sqrt(h["p"] / 3)
            if r < 0.35:
                x0 = 1.0 if h["p"] == 2.0 else round(bad, 3)          # at / next to the local minimum of |f|
            elif r < 0.55:
                x0 = round(bad + rng.uniform(-0.3, 0.6), 3)
            elif r < 0.8:
                x0 = round(rng.uniform(-3.0, -1.0), 3)                # near the root
            else:
                x0 = round(rng.uniform(-4.0, 4.0), 3)
        else:
            x0 = round(rng.uniform(2.0, 8.0), 3) if r < 0.5 else round(rng.uniform(0.0, 0.8), 3)
        spec["start"][h["x"]][i] = [x0, None]


def _gen_stat(rng, with_trend: bool) -> dict:
    n = rng.choice([1, 2, 2, 3, 3, 4, 5])
    names = rng.sample(_NAMES, n)
    logs = [nm for nm in names if rng.random() < 0.35]
    want_linear = rng.random() < 0.4
    params, shocks, eqs, steady_hint = {}, [], [], {}
    info = {}

    def term(j, s):
        return flog(var(j, s)) if j in logs else var(j, s)

    trend = []
    if with_trend:
        for _ in range(rng.choice([1, 1, 2])):
            kind = rng.choice(["rw", "rwlog"]) if not want_linear else "rw"
            nm = rng.choice([t for t in _TREND if t not in [x["name"] for x in trend]])
            trend.append({"name": nm, "kind": kind})
    # unit roots WITHOUT drift whose steady level is pinned by a separate steady version:  pw = pw{-1} + e !! pw = ss_pw
    pinned = []
    if rng.random() < (0.45 if want_linear else 0.25):
        for pnm in rng.sample(["pw", "pv"], rng.choice([1, 1, 2])):
            pinned.append({"name": pnm, "log": rng.random() < 0.3})
    for i, nm in enumerate(names):
        others = [o for o in names if o != nm]
        deps = rng.sample(others, min(len(others), rng.choice([0, 1, 1, 2])))
        rho, b = f"rho_{nm}", f"b_{nm}"
        params[rho] = _r(rng, 0.0, 0.9)
        params[b] = _r(rng, 0.5, 2.0)
        e = f"e_{nm}"
        shocks.append(e)
        own_lag = rng.choice([-1, -1, -2])
        terms = []
        for d in deps:
            a = f"a_{nm}_{d}"
            params[a] = _coef(rng, 0.25)
            terms.append(mul(par(a), term(d, rng.choice([-1, 0, 0, 1]))))
        if pinned and rng.random() < 0.5:
            t = rng.choice(pinned)
            a = f"a_{nm}_{t['name']}"
            params[a] = _coef(rng, 0.3)
            terms.append(mul(par(a), flog(var(t["name"], rng.choice([0, -1]))) if t["log"] else var(t["name"], rng.choice([0, -1]))))
        if trend and rng.random() < 0.5:
            t = rng.choice(trend)
            a = f"a_{nm}_{t['name']}"
            params[a] = _coef(rng, 0.3)
            if t["kind"] == "rw":
                terms.append(mul(par(a), sub(var(t["name"]), var(t["name"], -1))))
            else:
                terms.append(mul(par(a), flog(div(var(t["name"]), var(t["name"], -1)))))
        if nm in logs:
            form = "loglin" if want_linear else rng.choice(["geo", "loglin", "sum"])
            if form == "geo":
                inner = sum_terms(terms + [shk(e)])
                rhs = mul(mul(par(b), pw(var(nm, own_lag), par(rho))), fexp(inner))
                eq = {"lhs": var(nm), "rhs": rhs}
            elif form == "loglin":
                rhs = sum_terms([mul(par(rho), flog(var(nm, own_lag))), mul(sub(integer(1), par(rho)), flog(par(b)))]
                                + terms + [shk(e)])
                eq = {"lhs": flog(var(nm)), "rhs": rhs}
            else:
                d = rng.choice(others) if others else nm
                a2 = f"c_{nm}"
                params[a2] = _r(rng, 0.02, 0.1)
                base = term(d, rng.choice([-1, 0]))
                rhs = add(par(b), mul(par(a2), pw(base, integer(2))))
                eq = {"lhs": var(nm), "rhs": rhs}
        else:
            form = "lin" if want_linear else rng.choice(["lin", "lin", "exp", "prod", "ratio"])
            ar = [mul(par(rho), var(nm, own_lag)), mul(sub(integer(1), par(rho)), par(b))]
            if form == "lin" or not others:
                form = "lin"
                rhs = sum_terms(ar + terms + [shk(e)])
            elif form == "exp":
                d = rng.choice(others)
                a = f"c_{nm}"
                params[a] = _coef(rng, 0.3)
                rhs = sum_terms(ar + [mul(par(a), fexp(neg(term(d, rng.choice([-1, 0, 1])))))] + terms + [shk(e)])
            elif form == "prod":
                d1, d2 = rng.choice(others), rng.choice(names)
                a = f"c_{nm}"
                params[a] = _coef(rng, 0.12)
                rhs = sum_terms(ar + [mul(mul(par(a), term(d1, 0)), term(d2, -1))] + terms + [shk(e)])
            else:
                d = rng.choice(others)
                a = f"c_{nm}"
                params[a] = _coef(rng, 0.3)
                rhs = sum_terms(ar + [div(par(a), add(integer(1), pw(term(d, 0), integer(2))))] + terms + [shk(e)])
            eq = {"lhs": var(nm), "rhs": rhs}
        eq["form"] = form
        eq["own"] = nm
        # a different steady-state version after `!!`: the same equation without its shock, or a MATERIALLY different
        # one that pins the steady level by its own parameter (`dynamic !! x = ss_x`, optionally plus the cross terms)
        r_st = rng.random()
        if r_st < 0.15:
            eq["steady"] = {"lhs": eq["lhs"], "rhs": _drop_shocks(eq["rhs"])}
        elif r_st < 0.4 and form in ("lin", "loglin", "geo"):
            ss = f"ss_{nm}"
            params[ss] = _r(rng, 0.5, 2.5)
            keep = [_drop_shocks(t) for t in terms] if rng.random() < 0.4 else []
            if form == "loglin":
                eq["steady"] = {"lhs": flog(var(nm)), "rhs": sum_terms([flog(par(ss))] + keep)}
            elif form == "geo":
                eq["steady"] = {"lhs": var(nm), "rhs": (mul(par(ss), fexp(sum_terms(keep))) if keep else par(ss))}
            else:
                eq["steady"] = {"lhs": var(nm), "rhs": sum_terms([par(ss)] + keep)}
            eq["pin_param"] = ss
        eqs.append(eq)
    allnames = list(names)
    for t in trend:
        nm = t["name"]
        g = f"g_{nm}"
        e = f"e_{nm}"
        shocks.append(e)
        if t["kind"] == "rw":
            params[g] = _r(rng, -0.5, 0.5)
            terms = [var(nm, -1), par(g)]
            if names and rng.random() < 0.5:
                d = rng.choice(names)
                a = f"a_{nm}_{d}"
                params[a] = _coef(rng, 0.3)
                terms.append(mul(par(a), sub(term(d, 0), term(d, -1))))
            eqs.append({"lhs": var(nm), "rhs": sum_terms(terms + [shk(e)]), "form": "rw", "own": nm})
        else:
            params[g] = _r(rng, 0.98, 1.05)
            logs.append(nm)
            eqs.append({"lhs": var(nm), "rhs": mul(mul(var(nm, -1), par(g)), fexp(shk(e))), "form": "rwlog", "own": nm})
        allnames.append(nm)
        # a follower that shares the trend
        if rng.random() < 0.5 and names:
            d = rng.choice(names)
            f = nm + "f"
            if t["kind"] == "rw":
                eqs.append({"lhs": var(f), "rhs": add(var(nm, rng.choice([0, -1])), term(d, 0)), "form": "follow", "own": f})
            else:
                logs.append(f)
                other = var(d, 0) if d in logs else fexp(var(d, 0))
                eqs.append({"lhs": var(f), "rhs": mul(var(nm), other), "form": "followlog", "own": f})
            allnames.append(f)
    for t in pinned:
        nm, e, ss = t["name"], f"e_{t['name']}", f"ss_{t['name']}"
        shocks.append(e)
        params[ss] = _r(rng, 0.5, 2.5)
        if t["log"]:
            logs.append(nm)
            eqs.append({"lhs": flog(var(nm)), "rhs": add(flog(var(nm, -1)), shk(e)), "form": "rwpin", "own": nm,
                        "steady": {"lhs": flog(var(nm)), "rhs": flog(par(ss))}, "pin_param": ss})
        else:
            eqs.append({"lhs": var(nm), "rhs": add(var(nm, -1), shk(e)), "form": "rwpin", "own": nm,
                        "steady": {"lhs": var(nm), "rhs": par(ss)}, "pin_param": ss})
        allnames.append(nm)
    # measurement variables / equations (observed = state + constant + measurement shock)
    mvars, mshocks, meqs = [], [], []
    if rng.random() < 0.35:
        for d in rng.sample(allnames, min(len(allnames), rng.choice([1, 1, 2]))):
            nm = "ob_" + d
            k = f"k_{nm}"
            params[k] = _r(rng, -1.0, 1.0)
            rhs = [term(d, 0), par(k)]
            if rng.random() < 0.6:
                me = f"me_{nm}"
                mshocks.append(me)
                rhs.append(shk(me))
            meqs.append({"lhs": var(nm), "rhs": sum_terms(rhs), "form": "meas", "own": nm})
            mvars.append(nm)
    linear_ok = all(e["form"] in ("lin", "loglin", "rw", "follow", "rwpin") for e in eqs)
    order = list(range(len(eqs)))
    rng.shuffle(order)
    eqs = [eqs[i] for i in order]
    decl = list(allnames)
    rng.shuffle(decl)
    has_trend = bool(trend)
    linear = linear_ok and want_linear
    flat = (not has_trend) and rng.random() < 0.5
    trendy = {t["name"] for t in trend} | {e["own"] for e in eqs if e["form"] in ("follow", "followlog")}
    return {"vars": decl + mvars, "tvars": decl, "mvars": mvars, "mshocks": mshocks, "meqs": meqs,
            "logs": [v for v in decl if v in logs], "params": params, "shocks": shocks, "eqs": eqs + meqs,
            "linear": linear, "flat": flat, "trend": [t["name"] for t in trend],
            "followers": [e["own"] for e in eqs if e["form"] in ("follow", "followlog")]
                         + [e["own"] for e in meqs if e["own"][3:] in trendy]}


def _drop_shocks(t):
    k = t[0]
    if k == "shk":
        return integer(0)
    if k in ("num", "int", "var", "par"):
        return t
    if k in ("neg", "exp", "log"):
        return (k, _drop_shocks(t[1]))
    return (k, _drop_shocks(t[1]), _drop_shocks(t[2]))


def _gen_bgp(rng) -> dict:
    growth = rng.random() < 0.75
    params = {"alpha": _r(rng, 0.2, 0.5), "s": _r(rng, 0.1, 0.3), "delta": _r(rng, 0.05, 0.2),
              "ga": _r(rng, 1.005, 1.04) if growth else 1.0}
    a_eq = rng.choice([
        {"lhs": var("a"), "rhs": mul(mul(var("a", -1), par("ga")), fexp(shk("e_a")))},
        {"lhs": flog(var("a")), "rhs": sum_terms([flog(var("a", -1)), flog(par("ga")), shk("e_a")])},
    ])
    eqs = [dict(a_eq, form="rwlog", own="a"),
           {"lhs": var("y"), "rhs": mul(var("a"), pw(var("k", -1), par("alpha"))), "form": "prodfn", "own": "y"},
           {"lhs": var("k"), "rhs": add(mul(par("s"), var("y")), mul(sub(integer(1), par("delta")), var("k", -1))),
            "form": "accum", "own": "k"},
           rng.choice([
               {"lhs": var("c"), "rhs": sub(var("y"), mul(par("s"), var("y"))), "form": "cons", "own": "c"},
               {"lhs": var("c"), "rhs": mul(sub(integer(1), par("s")), var("y")), "form": "cons", "own": "c"},
           ])]
    names = ["a", "y", "k", "c"]
    logs = ["a", "y", "k", "c"]
    shocks = ["e_a"]
    if rng.random() < 0.5:
        nm = "ky"
        eqs.append({"lhs": var(nm), "rhs": div(var("k"), var("y")), "form": "ratio", "own": nm})
        names.append(nm)
        if rng.random() < 0.5:
            logs.append(nm)
    if rng.random() < 0.4:
        nm = "rr"
        eqs.append({"lhs": var(nm), "rhs": div(mul(par("alpha"), var("y", 1)), var("k")), "form": "ratio", "own": nm})
        names.append(nm)
    order = list(range(len(eqs)))
    rng.shuffle(order)
    eqs = [eqs[i] for i in order]
    decl = list(names)
    rng.shuffle(decl)
    return {"vars": decl, "logs": [v for v in decl if v in logs], "params": params, "shocks": shocks, "eqs": eqs,
            "linear": False, "flat": (not growth) and rng.random() < 0.5, "trend": ["a"] if True else [],
            "followers": ["y", "k", "c"], "growth": growth}


def _gen_values(rng, spec):
    """parameter values per variant and starting values (levels / changes) per variant"""
    nv = spec["nv"]
    pv = {}
    for k, v in spec["params"].items():
        vals = [v]
        for _ in range(nv - 1):
            if k.startswith("rho_"):
                vals.append(_r(rng, 0.0, 0.9))
            elif k == "ga" and v == 1.0:
                vals.append(1.0)
            else:
                vals.append(round(v * rng.uniform(0.8, 1.2), 3) if not k.startswith("g") else round(v * rng.uniform(0.99, 1.01), 4))
        pv[k] = vals
    spec["param_values"] = pv
    start = {}
    for nm in spec["vars"]:
        vals = []
        for _ in range(nv):
            r = rng.random()
            if r < 0.25:
                vals.append(None)                       # unassigned: the evaluator's default guess
            else:
                lv = _r(rng, 0.5, 2.5)
                if spec["flat"] or rng.random() < 0.6:
                    vals.append([lv, None])
                else:
                    ch = _r(rng, 0.98, 1.04) if nm in spec["logs"] else _r(rng, -0.2, 0.2)
                    vals.append([lv, ch])
        start[nm] = vals
    spec["start"] = start


PLAN_METHODS = ("exogenize", "unexogenize", "endogenize", "unendogenize", "fix_level", "unfix_level", "fix_change",
                "unfix_change", "fix", "unfix", "swap", "unswap")


def effective_plan(calls, flat: bool) -> dict:
    """what a history of SteadyPlan calls MEANS (stated independently of the implementation): each call switches the
    named quantities on/off in one register, the last call wins; fix/unfix = level, and in growth mode also change;
    swap((a, b)) = exogenize a + endogenize b"""
    on = {k: {} for k in ("exogenize", "endogenize", "fix_level", "fix_change")}

    def names_of(a):
        return [a] if isinstance(a, str) else list(a)
    for meth, arg in calls:
        status = not meth.startswith("un")
        base = meth[2:] if meth.startswith("un") else meth
        if base == "swap":
            for a, b in arg:
                on["exogenize"][a] = status
                on["endogenize"][b] = status
        elif base == "fix":
            for n in names_of(arg):
                on["fix_level"][n] = status
                if not flat:
                    on["fix_change"][n] = status
        else:
            for n in names_of(arg):
                on[base][n] = status
    return {k: [n for n, v in d.items() if v] for k, d in on.items()}


def _plan_calls(rng, spec):
    """a history of public SteadyPlan calls whose meaning is spec['plan']: combined and separate calls (fix / fix_level +
    fix_change / swap), names one by one or as lists, plus calls that are undone again later"""
    plan, flat = spec["plan"], spec["flat"]
    calls = []
    exo, endo = list(plan["exogenize"]), list(plan["endogenize"])
    fl, fc = list(plan["fix_level"]), list(plan["fix_change"])
    while exo and endo and rng.random() < 0.5:
        calls.append(["swap", [[exo.pop(0), endo.pop(0)]]])
    both = [n for n in fl if (n in fc or flat)]
    for n in both:
        if rng.random() < 0.75:
            calls.append(["fix", n if rng.random() < 0.7 else [n]])
            fl.remove(n)
            if n in fc:
                fc.remove(n)
    for k, ns in (("exogenize", exo), ("endogenize", endo), ("fix_level", fl), ("fix_change", fc)):
        if len(ns) > 1 and rng.random() < 0.5:
            calls.append([k, list(ns)])
        else:
            calls += [[k, n] for n in ns]
    rng.shuffle(calls)
    # calls that are undone again (before or after the calls that matter, never overriding them)
    used = set(plan["exogenize"] + plan["fix_level"] + plan["fix_change"])
    free = [n for n in spec["vars"] if n not in used]
    if free and rng.random() < 0.4:
        n = rng.choice(free)
        do, undo = rng.choice([("fix", "unfix"), ("fix_level", "unfix_level"), ("exogenize", "unexogenize"),
                               ("fix", "unfix")] + ([] if flat else [("fix_change", "unfix_change")]))
        i = rng.randrange(len(calls) + 1)
        calls.insert(i, [do, n])
        calls.insert(rng.randrange(i + 1, len(calls) + 1), [undo, n if rng.random() < 0.6 else [n]])
    got = effective_plan(calls, flat)
    assert all(sorted(got[k]) == sorted(plan[k]) for k in plan), (calls, plan, got)
    spec["plan_calls"] = calls


def _gen_plan(rng, spec):
    """an admissible steady plan (or none) and the history of public calls that sets it up"""
    _gen_plan_effective(rng, spec)
    if spec["plan"]:
        _plan_calls(rng, spec)


def _gen_plan_effective(rng, spec):
    spec["plan"] = None
    if spec["linear"]:
        return
    plan = {"exogenize": [], "endogenize": [], "fix_level": [], "fix_change": []}
    # growth mode: the LEVEL of a unit-root driver is not pinned down by the equations and is fixed by the plan (no
    # fix_change: its steady CHANGE still has to be solved for); mostly solved block by block on explicit request, where
    # the driver's own equation is a block whose only unknown is that change; the stored change is missing or off
    if spec["trend"] and not spec["flat"] and rng.random() < 0.4:
        owns = list(spec["trend"]) if rng.random() < 0.5 else [rng.choice(spec["trend"])]
        for own in owns:
            for i in range(spec["nv"]):
                if rng.random() < 0.6:
                    ch = None
                else:
                    ch = _r(rng, 0.97, 1.05) if own in spec["logs"] else _r(rng, -0.3, 0.3)
                spec["start"][own][i] = [_r(rng, 0.5, 3.0), ch]
            plan["fix_level"].append(own)
        r = rng.random()
        spec["split"] = True if r < 0.65 else (False if r < 0.85 else None)
        spec["plan"] = plan
        spec["plan_kind"] = "fix_level_driver"
        return
    # growth mode: a unit root with drift whose whole steady PATH (level and change) is assigned and fixed by the plan
    # (SteadyPlan.fix = level and change in growth mode), the drift parameter being endogenized: the change of the
    # driver is not pinned down by the remaining equations, only by the plan
    drifters = [e["own"] for e in spec["eqs"] if e["form"] in ("rw", "rwlog") and e["own"] in spec["trend"]]
    if drifters and not spec["flat"] and spec["family"] != "bgp" and rng.random() < 0.45:
        own = rng.choice(drifters)
        for i in range(spec["nv"]):
            ch = _r(rng, 0.97, 1.06) if own in spec["logs"] else round(rng.choice([-1, 1]) * rng.uniform(0.02, 0.4), 3)
            spec["start"][own][i] = [_r(rng, 0.5, 3.0), ch]
        plan["fix_level"].append(own)
        plan["fix_change"].append(own)
        plan["endogenize"].append(f"g_{own}")
        if spec["split"]:
            spec["split"] = None        # blazer needs a square incidence matrix: qids = equations + 1 here
        spec["plan"] = plan
        spec["plan_kind"] = "fix_drift"
        return
    if rng.random() < 0.45:
        return
    trendy = set(spec["trend"]) | set(spec["followers"])
    stationary = [e["own"] for e in spec["eqs"] if e["own"] not in trendy and e["form"] in
                  ("lin", "exp", "prod", "ratio", "geo", "loglin", "sum", "rwpin")]
    pin = {e["own"]: e["pin_param"] for e in spec["eqs"] if e.get("pin_param")}
    kind = rng.choice(["swap", "swap", "fix_level_trend", "fix_change", "fix_level_swap", "fix_swap"])
    if kind in ("fix_level_swap", "fix_swap") and spec["split"]:
        spec["split"] = None        # blazer needs a square incidence matrix: qids = equations + 1 here
    if kind in ("swap", "fix_level_swap", "fix_swap") and stationary and spec["family"] != "bgp":
        own = rng.choice(stationary)
        b = pin.get(own, f"b_{own}")
        target = _r(rng, 0.6, 2.2)
        ch = (1.0 if own in spec["logs"] else 0.0)
        for i in range(spec["nv"]):
            spec["start"][own][i] = [round(target * (1 + 0.1 * i), 3), ch]
        if kind == "swap":
            plan["exogenize"].append(own)
        else:
            plan["fix_level"].append(own)
            if kind == "fix_swap" and not spec["flat"]:
                plan["fix_change"].append(own)
        plan["endogenize"].append(b)
    elif kind == "fix_level_trend" and spec["trend"]:
        own = rng.choice(spec["trend"])
        for i in range(spec["nv"]):
            cur = spec["start"][own][i]
            spec["start"][own][i] = [_r(rng, 0.5, 3.0), (cur[1] if cur else None)]
        plan["fix_level"].append(own)
    elif kind == "fix_change" and stationary and not spec["flat"]:
        own = rng.choice(stationary)
        ch = (1.0 if own in spec["logs"] else 0.0)
        for i in range(spec["nv"]):
            cur = spec["start"][own][i]
            spec["start"][own][i] = [(cur[0] if cur else _r(rng, 0.5, 2.0)), ch]
        plan["fix_change"].append(own)
    else:
        return
    spec["plan"] = plan


def source_text(spec) -> str:
    full = spec["full_parens"]
    mvars = spec.get("mvars") or []

    def eq_line(e):
        s = f"    {render(e['lhs'], full)} = {render(e['rhs'], full)}"
        if "steady" in e:
            s += f" !! {render(e['steady']['lhs'], full)} = {render(e['steady']['rhs'], full)}"
        return s + ";"
    if not mvars:
        lines = ["!variables", "    " + ", ".join(spec["vars"])]
        if spec["logs"]:
            lines += ["!log-variables", "    " + ", ".join(spec["logs"])]
        lines += ["!parameters", "    " + ", ".join(spec["params"])]
        lines += ["!shocks", "    " + ", ".join(spec["shocks"])]
        lines.append("!equations")
        lines += [eq_line(e) for e in spec["eqs"]]
        return "\n".join(lines) + "\n"
    meq_names = {id(e) for e in spec["meqs"]}
    lines = ["!transition-variables", "    " + ", ".join(spec["tvars"])]
    lines += ["!measurement-variables", "    " + ", ".join(mvars)]
    if spec["logs"]:
        lines += ["!log-variables", "    " + ", ".join(spec["logs"])]
    lines += ["!parameters", "    " + ", ".join(spec["params"])]
    lines += ["!transition-shocks", "    " + ", ".join(spec["shocks"])]
    if spec["mshocks"]:
        lines += ["!measurement-shocks", "    " + ", ".join(spec["mshocks"])]
    lines.append("!transition-equations")
    lines += [eq_line(e) for e in spec["eqs"] if e["form"] != "meas"]
    lines.append("!measurement-equations")
    lines += [eq_line(e) for e in spec["eqs"] if e["form"] == "meas"]
    return "\n".join(lines) + "\n"


# =====================================================================================================
# running the implementation through the public API, recording the oracles from outside
# =====================================================================================================

def build_model(spec):
    import irispie as ir
    m = ir.Simultaneous.from_string(source_text(spec), linear=spec["linear"], flat=spec["flat"])
    nv = spec["nv"]
    if nv > 1:
        m.alter_num_variants(nv)
    assign = {}
    for k, vals in spec["param_values"].items():
        assign[k] = list(vals) if nv > 1 else vals[0]
    for nm, vals in spec["start"].items():
        conv = [(..., ...) if v is None else (v[0], (v[1] if v[1] is not None else ...)) for v in vals]
        assign[nm] = conv if nv > 1 else conv[0]
    m.assign(**assign)
    plan = None
    if spec["plan"]:
        plan = ir.SteadyPlan(m)
        if spec.get("plan_calls") is not None:
            for meth, arg in spec["plan_calls"]:
                if meth in ("swap", "unswap"):
                    getattr(plan, meth)(*[tuple(a) for a in arg])
                else:
                    getattr(plan, meth)(arg)
        else:
            for k in ("exogenize", "endogenize", "fix_level", "fix_change"):
                for nm in spec["plan"][k]:
                    getattr(plan, k)(nm)
    return m, plan


def _vals(d: dict) -> list:
    n = max(d.keys()) + 1
    return [float("nan") if d.get(q) is None else float(d[q]) for q in range(n)]


class Recorder:
    """patches the black boxes of one Simultaneous.steady call from outside and records what they saw"""

    def __init__(self):
        self.variants = []          # per variant: dict
        self._cur = None

    @contextlib.contextmanager
    def patched(self):
        from irispie.steadiers import solver_dispatcher as sd
        from irispie.simultaneous import _steady as st
        from irispie.incidences import blazer as bz
        from irispie.fords import steadiers as fs
        o_solvers = {nm: getattr(sd, nm) for nm in SOLVERS}
        o_nl, o_lin, o_wrt, o_blaze = st._steady_nonlinear, st._steady_linear, st._resolve_steady_wrt, bz.blaze
        o_lf, o_lnf = fs.solve_steady_linear_flat, fs.solve_steady_linear_nonflat
        rec = self

        def wrap_solver(name):
            def solver(ev, g0, solver_settings):
                return solver_call(name, ev, g0, solver_settings)
            return solver

        def solver_call(name, ev, g0, solver_settings):
            out = o_solvers[name](ev, g0, solver_settings=solver_settings)
            final = np.array(out[0], dtype=float)
            try:
                resid = np.array(ev.eval_func(final), dtype=float).tolist()
            except Exception as e:  # noqa
                resid = None
            rec._cur["blocks"].append({
                "wrt": [int(q) for q in ev.wrt_qids],
                "bl": [bool(b) for b in ev._bool_index_wrt_levels],
                "bc": [bool(b) for b in ev._bool_index_wrt_changes],
                "init": np.array(g0, dtype=float).tolist(),
                "final": final.tolist(),
                "success": bool(out[1]),
                "resid": resid,
                # neqs: max-norm < func_tolerance; scipy_root: 2-norm < tol (hence max-norm < tol)
                "tol": float(solver_settings["func_tolerance"] if "func_tolerance" in solver_settings
                             else solver_settings["tol"]),
                "solver": name,
            })
            return out

        def wrt(model, plan, is_flat):
            w = o_wrt(model, plan, is_flat=is_flat)
            if rec._cur is not None:
                rec._cur["wrt"] = {"qids": list(w.qids), "fixl": list(w.fixed_level_qids), "fixc": list(w.fixed_change_qids),
                                   "eids": list(w.eids), "xtrings": [e.xtring for e in w.equations]}
            return w

        def blaze(*a, **k):
            bl = o_blaze(*a, **k)
            if rec._cur is not None:
                rec._cur["blaze"] = [{"eids": [int(i) for i in b.eids], "qids": [int(i) for i in b.qids]} for b in bl]
            return bl

        def wrap_variant(orig, kind):
            def f(model, variant, model_flags, vid, *a, **k):
                cur = {"kind": kind, "vid": vid, "before": (_vals(variant.levels), _vals(variant.changes)),
                       "blocks": [], "blaze": None, "wrt": None, "error": None, "linear": None,
                       "flat": bool(model_flags.is_flat)}
                rec._cur = cur
                rec.variants.append(cur)
                try:
                    return orig(model, variant, model_flags, vid, *a, **k)
                except Exception as e:  # noqa
                    cur["error"] = f"{type(e).__name__}: {str(e)[:200]}"
                    raise
                finally:
                    cur["after"] = (_vals(variant.levels), _vals(variant.changes))
                    rec._cur = None
            return f

        def wrap_lin(orig):
            def f(system):
                out = orig(system)
                if rec._cur is not None:
                    rec._cur["linear"] = {
                        "A": system.A.tolist(), "B": system.B.tolist(), "C": np.ravel(system.C).tolist(),
                        "F": system.F.tolist(), "G": system.G.tolist(), "H": np.ravel(system.H).tolist(),
                        "Xi": np.ravel(out[0]).tolist(), "Y": np.ravel(out[1]).tolist(),
                        "dXi": np.ravel(out[2]).tolist(), "dY": np.ravel(out[3]).tolist(),
                    }
                return out
            return f

        for nm in SOLVERS:
            setattr(sd, nm, wrap_solver(nm))
        st._steady_nonlinear = wrap_variant(o_nl, "nonlinear")
        st._steady_linear = wrap_variant(o_lin, "linear")
        st._resolve_steady_wrt = wrt
        bz.blaze = blaze
        fs.solve_steady_linear_flat = wrap_lin(o_lf)
        fs.solve_steady_linear_nonflat = wrap_lin(o_lnf)
        try:
            with contextlib.redirect_stdout(io.StringIO()):
                yield self
        finally:
            for nm in SOLVERS:
                setattr(sd, nm, o_solvers[nm])
            st._steady_nonlinear, st._steady_linear, st._resolve_steady_wrt, bz.blaze = o_nl, o_lin, o_wrt, o_blaze
            fs.solve_steady_linear_flat, fs.solve_steady_linear_nonflat = o_lf, o_lnf


def run_impl(spec) -> dict:
    """build the model, call model.steady(...) and return everything observed"""
    out = {"error": None}
    try:
        m, plan = build_model(spec)
    except Exception as e:  # noqa
        out["error"] = f"build: {type(e).__name__}: {str(e)[:300]}"
        return out
    qs = m._invariant.quantities
    out["names"] = [q.human for q in qs]
    out["logly"] = [q.logly for q in qs]
    out["kinds"] = [q.kind.name for q in qs]
    name_to_qid = {q.human: q.id for q in qs}
    if [q.id for q in qs] != list(range(len(qs))):
        out["error"] = "qids are not 0..n-1"
        return out
    out["plan_qids"] = None
    if spec["plan"]:
        out["plan_qids"] = {k: [name_to_qid[n] for n in v] for k, v in spec["plan"].items()}
    sv = m._invariant.steady_descriptor.system_vectors
    out["tokens"] = [[int(t.qid), int(t.shift)] for t in list(sv.transition_variables) + list(sv.measurement_variables)]
    rec = Recorder()
    kwargs = {}
    if plan is not None:
        kwargs["plan"] = plan
    if spec["split"] is not None:
        kwargs["split_into_blocks"] = spec["split"]
    if spec.get("solver"):
        kwargs["solver"] = spec["solver"]
    if spec.get("solver_settings"):
        kwargs["solver_settings"] = dict(spec["solver_settings"])
    out["before_all"] = [(_vals(v.levels), _vals(v.changes)) for v in m._variants]
    try:
        with rec.patched():
            info = getattr(m, spec.get("method") or "steady")(return_info=True, unpack_singleton=False, **kwargs)
        out["info_success"] = [bool(i.get("success", True)) for i in info]
    except Exception as e:  # noqa
        out["error"] = f"steady: {type(e).__name__}: {str(e)[:300]}"
    out["variants"] = rec.variants
    out["after_all"] = [(_vals(v.levels), _vals(v.changes)) for v in m._variants]
    out["model"] = m
    return out


BOGUS_QID = 9999


def run_plan_history(m, spec) -> dict:
    """play spec['plan_hist'] on a fresh SteadyPlan(m); record the four registers (insertion order) and whether the call
    raised after every call, and what _resolve_steady_wrt / _resolve_split_into_blocks make of the final plan"""
    import irispie as ir
    from irispie.simultaneous import _steady as st
    qs = m._invariant.quantities
    qid = {q.human: q.id for q in qs}
    kinds = model_kinds([q.kind.name for q in qs])
    plan = ir.SteadyPlan(m)

    def regs():
        return [[[qid.get(k, BOGUS_QID), bool(v)] for k, v in getattr(plan, f"_{r}_register").items()]
                for r in ("exogenized", "endogenized", "fixed_level", "fixed_change")]

    def conv(a):
        return ... if a == "..." else a
    trace, errors = [], []
    for meth, arg in spec["plan_hist"]:
        ok = True
        try:
            if meth in ("swap", "unswap"):
                getattr(plan, meth)(*[tuple(a) for a in arg])
            else:
                getattr(plan, meth)(conv(arg))
        except Exception as e:  # noqa
            ok = False
            errors.append(type(e).__name__)
        trace.append([regs(), ok])
    with contextlib.redirect_stdout(io.StringIO()):
        w = st._resolve_steady_wrt(m, plan, is_flat=bool(spec["flat"]))
        split = bool(st._resolve_split_into_blocks(None, plan))

    def q_of(a):
        return [qid.get(n, BOGUS_QID) for n in ([a] if isinstance(a, str) else a)]
    hist = []
    for meth, arg in spec["plan_hist"]:
        if meth in ("swap", "unswap"):
            hist.append([meth, [[qid.get(a, BOGUS_QID), qid.get(b, BOGUS_QID)] for a, b in arg]])
        else:
            hist.append([meth, None if arg == "..." else q_of(arg)])
    return {"kinds": kinds, "flat": bool(spec["flat"]),
            "endog": [q.id for q in qs if kinds[q.id] == "KEndog"], "params": [q.id for q in qs if kinds[q.id] == "KParam"],
            "hist": hist, "trace": trace, "errors": errors,
            "wrt": [list(w.qids), list(w.fixed_level_qids), list(w.fixed_change_qids)], "split": split}


PLAN_HEADER = """From Coq Require Import List Bool Arith.
From Verif Require Import gen.SteadyPlanGen model.Steady model.SteadyPlan.
Import ListNotations.
Set Printing Width 1000000.
Set Printing Depth 1000000.
"""


def _coq_sel(a) -> str:
    return "SAll" if a is None else f"(SNames {cnl(a)})"


def _coq_op(meth, arg) -> str:
    if meth in ("swap", "unswap"):
        pairs = coq_list([f"({a}%nat, {b}%nat)" for a, b in arg])
        return f"({'OSwap' if meth == 'swap' else 'OUnswap'} {pairs})"
    if meth in ("fix", "unfix"):
        return f"({'OFix' if meth == 'fix' else 'OUnfix'} {_coq_sel(arg)})"
    return f"(OCall {trp._ctor(meth)} {_coq_sel(arg)})"


def _coq_reg(r) -> str:
    return coq_list([f"({q}%nat, {'true' if v else 'false'})" for q, v in r])


def coq_plan_case(c: dict) -> str:
    trace = coq_list([f"(mkSP {_coq_reg(r[0])} {_coq_reg(r[1])} {_coq_reg(r[2])} {_coq_reg(r[3])}, {'true' if ok else 'false'})"
                      for r, ok in c["trace"]])
    w = c["wrt"]
    return (f"  (mkPC {coq_list(c['kinds'])} {core.coq_bool(c['flat'])} {cnl(c['endog'])} {cnl(c['params'])}\n"
            f"     {coq_list([_coq_op(m_, a) for m_, a in c['hist']])}\n     {trace}\n"
            f"     ({cnl(w[0])}, {cnl(w[1])}, {cnl(w[2])}) {core.coq_bool(c['split'])})")


def plan_shard_text(cases) -> str:
    return (PLAN_HEADER + "Definition cases : list plan_case := [\n" + ";\n".join(coq_plan_case(c) for c in cases)
            + "\n].\nEval vm_compute in (failing_plan_cases cases 0).\n")


# =====================================================================================================
# Python mirror of coq/model/Steady.v: used ONLY to know at which arguments numpy's log/exp/power are
# needed (the values are recorded into lookup tables for the PrimFloat model); Coq does the comparison
# =====================================================================================================

class Tables:
    def __init__(self):
        self.ln, self.exp, self.pow = {}, {}, {}

    @staticmethod
    def _k(x):
        return "nan" if x != x else float(x).hex()

    def f_ln(self, x):
        x = np.float64(x)
        with np.errstate(all="ignore"):
            y = np.log(x)
        self.ln[self._k(x)] = (float(x), float(y))
        return y

    def f_exp(self, x):
        x = np.float64(x)
        with np.errstate(all="ignore"):
            y = np.exp(x)
        self.exp[self._k(x)] = (float(x), float(y))
        return y

    def f_pow(self, a, b):
        with np.errstate(all="ignore"):
            try:
                y = a ** b
            except (ZeroDivisionError, OverflowError):
                y = float("nan")
        if isinstance(y, complex):
            y = float("nan")
        self.pow[(self._k(float(a)), self._k(float(b)))] = (float(a), float(b), float(y))
        return y

    def coq(self) -> str:
        ln = coq_list([f"({coq_float(a)}, {coq_float(b)})" for a, b in self.ln.values()])
        ex = coq_list([f"({coq_float(a)}, {coq_float(b)})" for a, b in self.exp.values()])
        pw_ = coq_list([f"(({coq_float(a)}, {coq_float(e)}), {coq_float(b)})" for a, e, b in self.pow.values()])
        return f"{{| t_ln := {ln}; t_exp := {ex}; t_pow := {pw_} |}}"


def parse_xtring(x: str) -> ast.AST:
    return ast.parse(x.strip(), mode="eval").body


def _tok(node):
    """x[(q, t+s)] -> (q, s)"""
    if not (isinstance(node, ast.Subscript) and isinstance(node.value, ast.Name) and node.value.id == "x"
            and isinstance(node.slice, ast.Tuple) and len(node.slice.elts) == 2
            and isinstance(node.slice.elts[0], ast.Constant)):
        raise ValueError(f"unsupported subscript {ast.unparse(node)}")
    q = int(node.slice.elts[0].value)
    t = node.slice.elts[1]
    if isinstance(t, ast.Name) and t.id == "t":
        return q, 0
    if isinstance(t, ast.BinOp) and isinstance(t.left, ast.Name) and t.left.id == "t" \
            and isinstance(t.right, ast.Constant) and isinstance(t.op, (ast.Add, ast.Sub)):
        s = int(t.right.value)
        return q, (s if isinstance(t.op, ast.Add) else -s)
    raise ValueError(f"unsupported time index {ast.unparse(node)}")


_BIN = {ast.Add: "EAdd", ast.Sub: "ESub", ast.Mult: "EMul", ast.Div: "EDiv", ast.Pow: "EPow"}


def coq_expr(node) -> str:
    if isinstance(node, ast.Constant) and isinstance(node.value, (int, float)) and not isinstance(node.value, bool):
        return f"(EC {coq_float(float(node.value))})"
    if isinstance(node, ast.Subscript):
        q, s = _tok(node)
        return f"(EV {q}%nat ({s})%Z)"
    if isinstance(node, ast.UnaryOp) and isinstance(node.op, ast.USub):
        return f"(ENeg {coq_expr(node.operand)})"
    if isinstance(node, ast.UnaryOp) and isinstance(node.op, ast.UAdd):
        return coq_expr(node.operand)
    if isinstance(node, ast.BinOp) and type(node.op) in _BIN:
        return f"({_BIN[type(node.op)]} {coq_expr(node.left)} {coq_expr(node.right)})"
    if isinstance(node, ast.Call) and isinstance(node.func, ast.Name) and node.func.id in ("log", "exp") \
            and len(node.args) == 1 and not node.keywords:
        return f"({'ELn' if node.func.id == 'log' else 'EExp'} {coq_expr(node.args[0])})"
    raise ValueError(f"unsupported expression {ast.unparse(node)}")


def expr_tokens(node) -> list:
    return [_tok(n) for n in ast.walk(node) if isinstance(n, ast.Subscript)]


def mirror_eval(node, env, tb: Tables):
    """Python's own evaluation order and types (ints stay ints), recording log/exp/power"""
    if isinstance(node, ast.Constant):
        return node.value
    if isinstance(node, ast.Subscript):
        q, s = _tok(node)
        return env(q, s)
    if isinstance(node, ast.UnaryOp):
        v = mirror_eval(node.operand, env, tb)
        return -v if isinstance(node.op, ast.USub) else v
    if isinstance(node, ast.BinOp):
        a = mirror_eval(node.left, env, tb)
        b = mirror_eval(node.right, env, tb)
        with np.errstate(all="ignore"):
            if isinstance(node.op, ast.Add):
                return a + b
            if isinstance(node.op, ast.Sub):
                return a - b
            if isinstance(node.op, ast.Mult):
                return a * b
            if isinstance(node.op, ast.Div):
                try:
                    return a / b
                except ZeroDivisionError:
                    return float("nan")
            return tb.f_pow(a, b)
    if isinstance(node, ast.Call):
        v = mirror_eval(node.args[0], env, tb)
        return tb.f_ln(v) if node.func.id == "log" else tb.f_exp(v)
    raise ValueError(ast.unparse(node))


_NAN = float("nan")


def _bad(x):
    return bool(np.isnan(x) or np.isinf(x))


class Mirror:
    """same functions, same names as coq/model/Steady.v"""

    def __init__(self, tb: Tables, logly, kinds):
        self.tb = tb
        self.lg = [bool(x) if x is not None else None for x in logly]
        self.kinds = kinds

    def is_log(self, q):
        return self.lg[q] is True

    def variant_cell(self, lgq, l, c, s):
        l, c = np.float64(l), np.float64(c)
        l1 = self.tb.f_ln(l) if lgq else l
        l1 = np.float64(_NAN) if _bad(l1) else l1
        c1 = self.tb.f_ln(c) if lgq else c
        c1 = np.float64(0.0) if _bad(c1) else c1
        with np.errstate(all="ignore"):
            p = l1 + c1 * np.float64(s)
        return self.tb.f_exp(p) if lgq else p

    def steady_array(self, levels, changes, ncols, first):
        return [[self.variant_cell(self.is_log(q), levels[q], changes[q], first + j) for j in range(ncols)]
                for q in range(len(levels))]

    def zero_changes(self, changes):
        return [(_NAN if self.lg[q] is None else float(self.lg[q])) for q in range(len(changes))]

    def make_evaluator(self, flat, levels, changes, wrt, level_qids, change_qids, eqs):
        if flat:
            changes = self.zero_changes(changes)
        toks = [t for e in eqs for t in expr_tokens(e)]
        mn = min([s for _, s in toks], default=0)
        mx = max([s for _, s in toks], default=0) + 1
        ncols = mx + 1 - mn
        il, ic = [], []
        for q in wrt:
            l = np.float64(levels[q])
            c = np.float64(changes[q])
            if self.is_log(q):
                l, c = self.tb.f_ln(l), self.tb.f_ln(c)
            il.append(np.float64(1 / 9) if np.isnan(l) else l)
            ic.append(np.float64(0.0) if np.isnan(c) else c)
        ev = {"flat": flat, "wrt": list(wrt), "bl": [q in level_qids for q in wrt],
              "bc": [] if flat else [q in change_qids for q in wrt], "lg": [self.is_log(q) for q in wrt],
              "mn": mn, "ncols": ncols, "il": il, "ic": ic,
              "base": self.steady_array(levels, changes, ncols, mn), "eqs": eqs}
        return changes, ev

    @staticmethod
    def mask_assign(init, mask, g):
        out, g = list(init), list(g)
        k = 0
        for i in range(min(len(init), len(mask))):
            if mask[i] and k < len(g):
                out[i] = np.float64(g[k])
                k += 1
        return out

    def new_levels(self, ev, g):
        nl = sum(ev["bl"])
        return self.mask_assign(ev["il"], ev["bl"], g if ev["flat"] else g[:nl])

    def new_changes(self, ev, g):
        if ev["flat"]:
            return [np.float64(0.0) for _ in ev["ic"]]
        nl = sum(ev["bl"])
        return self.mask_assign(ev["ic"], ev["bc"], g[nl:])

    def ev_array(self, ev, g):
        ls, cs = self.new_levels(ev, g), self.new_changes(ev, g)
        arr = [list(r) for r in ev["base"]]
        for i, q in enumerate(ev["wrt"]):
            if q >= len(arr) or q in ev["wrt"][:i]:
                continue
            row = []
            for j in range(ev["ncols"]):
                s = np.float64(ev["mn"] + j)
                with np.errstate(all="ignore"):
                    p = ls[i] if ev["flat"] else ls[i] + s * cs[i]
                row.append(self.tb.f_exp(p) if ev["lg"][i] else p)
            arr[q] = row
        return arr

    def eval_eqs(self, arr, t, eqs):
        def env_at(q, s):
            col = t + s
            if col < 0 or q >= len(arr) or col >= len(arr[q]):
                return np.float64(_NAN)
            return np.float64(arr[q][col])
        return [mirror_eval(e, env_at, self.tb) for e in eqs]

    def ev_func(self, ev, g):
        arr = self.ev_array(ev, g)
        off = -ev["mn"]
        out = self.eval_eqs(arr, off, ev["eqs"])
        if not ev["flat"]:
            out += self.eval_eqs(arr, off + 1, ev["eqs"])
        return [float(v) for v in out]

    def write_back(self, levels, changes, ev, g):
        levels, changes = list(levels), list(changes)
        ls, cs = self.new_levels(ev, g), self.new_changes(ev, g)
        for i, q in enumerate(ev["wrt"]):
            if ev["bl"][i]:
                levels[q] = float(self.tb.f_exp(ls[i]) if ev["lg"][i] else ls[i])
            elif ev["lg"][i]:
                self.tb.f_exp(ls[i])
            if ev["lg"][i]:
                self.tb.f_exp(cs[i])
        for i, q in enumerate(ev["wrt"]):
            if i < len(ev["bc"]) and ev["bc"][i] and self.kinds[q] in ("KEndog", "KExog"):
                changes[q] = float(self.tb.f_exp(cs[i]) if ev["lg"][i] else cs[i])
        return levels, changes

    def steady_nonlinear(self, flat, eqs, plan, split, blocks, orcs, levels, changes):
        n = len(self.kinds)
        wrt = [q for q in range(n) if (self.kinds[q] == "KEndog" and q not in plan["exogenize"]) or q in plan["endogenize"]]
        fixl = [q for q in range(n) if q in plan["fix_level"]]
        fixc = [q for q in range(n) if q in plan["fix_change"] or q in plan["endogenize"]]
        if not split:
            blocks = [{"eids": list(range(len(eqs))), "qids": wrt}]
        obs, orcs = [], list(orcs)
        for b in blocks:
            lq = [q for q in range(n) if q in b["qids"] and q not in fixl]
            cq = [q for q in range(n) if q in b["qids"] and q not in fixc]
            beqs = [eqs[e] for e in b["eids"]]
            if (not lq and not cq) or not beqs or not orcs:
                continue
            w, g = orcs.pop(0)
            changes, ev = self.make_evaluator(flat, levels, changes, w, lq, cq, beqs)
            init = [float(v) for v, m_ in zip(ev["il"], ev["bl"]) if m_] + [float(v) for v, m_ in zip(ev["ic"], ev["bc"]) if m_]
            obs.append({"bl": ev["bl"], "bc": ev["bc"], "init": init, "resid": self.ev_func(ev, g)})
            levels, changes = self.write_back(levels, changes, ev, g)
        return {"wrt": wrt, "fixl": fixl, "fixc": fixc, "blocks": obs, "levels": levels, "changes": changes}


# =====================================================================================================
# Coq rendering
# =====================================================================================================

HEADER = """From Coq Require Import ZArith List Bool PrimFloat.
From Verif Require Import lib.Arith model.Steady.
Import ListNotations.
Open Scope Z_scope.
Set Printing Width 1000000.
Set Printing Depth 1000000.
"""

_KIND = {"TRANSITION_VARIABLE": "KEndog", "MEASUREMENT_VARIABLE": "KEndog", "EXOGENOUS_VARIABLE": "KExog",
         "PARAMETER": "KParam"}


def model_kinds(names) -> list:
    return [_KIND.get(k, "KOther") for k in names]


def cfl(xs) -> str:
    return coq_list([coq_float(float(x)) for x in xs])


def cnl(xs) -> str:
    return coq_list([f"{int(x)}%nat" for x in xs])


def cbl(xs) -> str:
    return coq_list(["true" if x else "false" for x in xs])


def coq_logly(lg) -> str:
    return coq_list(["None" if x is None else ("(Some true)" if x else "(Some false)") for x in lg])


def coq_mat(M) -> str:
    return coq_list([cfl(r) for r in M])


EMPTY_PLAN = {"exogenize": [], "endogenize": [], "fix_level": [], "fix_change": []}


def nl_case(out: dict, spec: dict, V: dict) -> dict:
    """everything one nonlinear (variant) case needs, JSON-able"""
    plan = out["plan_qids"] or EMPTY_PLAN
    split = spec["split"]
    if split is None:                      # _resolve_split_into_blocks
        split = True if not spec["plan"] else not (spec["plan"]["fix_level"] or spec["plan"]["fix_change"])
    return {
        "flat": V["flat"], "logly": out["logly"], "kinds": model_kinds(out["kinds"]),
        "levels": V["before"][0], "changes": V["before"][1],
        "xtrings": V["wrt"]["xtrings"], "plan": plan, "split": bool(split),
        "blocks": V["blaze"] if split else [],
        "orcs": [[b["wrt"], b["final"]] for b in V["blocks"]],
        "tol": V["blocks"][0]["tol"] if V["blocks"] else 1e-12,
        "expect": {
            "wrt": V["wrt"]["qids"], "fixl": V["wrt"]["fixl"], "fixc": V["wrt"]["fixc"],
            "blocks": [{"bl": b["bl"], "bc": b["bc"], "init": b["init"], "resid": b["resid"]} for b in V["blocks"]],
            "levels": V["after"][0], "changes": V["after"][1],
        },
    }


def mirror_nl(case: dict, tb: Tables) -> dict:
    mr = Mirror(tb, case["logly"], case["kinds"])
    eqs = [parse_xtring(x) for x in case["xtrings"]]
    return mr.steady_nonlinear(case["flat"], eqs, case["plan"], case["split"], case["blocks"], case["orcs"],
                               case["levels"], case["changes"])


def coq_nl_case(case: dict) -> str:
    eqs = coq_list([coq_expr(parse_xtring(x)) for x in case["xtrings"]], sep=";\n      ")
    p = case["plan"]
    plan = f"(mkPlan {cnl(p['exogenize'])} {cnl(p['endogenize'])} {cnl(p['fix_level'])} {cnl(p['fix_change'])})"
    blocks = coq_list([f"(mkBlock {cnl(b['eids'])} {cnl(b['qids'])})" for b in case["blocks"]])
    orcs = coq_list([f"({cnl(w)}, {cfl(g)})" for w, g in case["orcs"]])
    kinds = coq_list(case["kinds"])
    model = (f"steady_nonlinear FA f_is_bad {core.coq_bool(case['flat'])} {coq_logly(case['logly'])} {kinds}\n     {eqs}\n"
             f"     {plan} {core.coq_bool(case['split'])} {blocks}\n     {orcs}\n"
             f"     (mkVariant FA {cfl(case['levels'])} {cfl(case['changes'])})")
    e = case["expect"]
    obs = coq_list([f"(mkObs FA {cbl(b['bl'])} {cbl(b['bc'])} {cfl(b['init'])} {cfl(b['resid'])} true)" for b in e["blocks"]])
    exp = (f"mkNl FA {cnl(e['wrt'])} {cnl(e['fixl'])} {cnl(e['fixc'])} {obs}\n     {cfl(e['levels'])} {cfl(e['changes'])}")
    return f"  ({model},\n   {exp})"


def lin_case(out: dict, V: dict) -> dict:
    L = V["linear"]
    return {"flat": V["flat"], "logly": out["logly"], "tokens": out["tokens"],
            "levels": V["before"][0], "changes": V["before"][1], "sys": L,
            "expect": {"levels": V["after"][0], "changes": V["after"][1]}}


def lin_vectors(case):
    L = case["sys"]
    return L["Xi"] + L["Y"], L["dXi"] + L["dY"]


def mirror_lin(case: dict, tb: Tables):
    lv, ch = lin_vectors(case)
    for tok, a, b in zip(case["tokens"], lv, ch):
        tb.f_exp(a)
        tb.f_exp(b)


def coq_lin_case(case: dict) -> str:
    lv, ch = lin_vectors(case)
    toks = coq_list([f"({q}%nat, ({s})%Z)" for q, s in case["tokens"]])
    model = (f"steady_linear FA {coq_logly(case['logly'])} {toks} {cfl(lv)} {cfl(ch)} "
             f"(mkVariant FA {cfl(case['levels'])} {cfl(case['changes'])})")
    e = case["expect"]
    return f"  ({model},\n   mkVariant FA {cfl(e['levels'])} {cfl(e['changes'])})"


def coq_lin_contract(case: dict) -> str:
    L = case["sys"]
    args = f"{coq_mat(L['A'])} {coq_mat(L['B'])} {coq_mat(L['F'])} {coq_mat(L['G'])} {cfl(L['C'])} {cfl(L['H'])}"
    if case["flat"]:
        return f"  (lin_flat_residuals FA {args} {cfl(L['Xi'])} {cfl(L['Y'])})"
    return f"  (lin_nonflat_residuals FA {args} {cfl(L['Xi'] + L['dXi'])} {cfl(L['Y'] + L['dY'])})"


LIN_TOL = 1e-8


def shard_text(nl_cases, lin_cases) -> str:
    tb = Tables()
    for c in nl_cases:
        mirror_nl(c, tb)
    for c in lin_cases:
        mirror_lin(c, tb)
    lines = [HEADER, f"Definition tb : ftables := {tb.coq()}.", "Notation FA := (FArith tb).",
             "Definition EC (c : float) : expr FA := @EConst FA c.",
             "Definition EV (q : nat) (s : Z) : expr FA := @EVar FA q s.",
             "Definition cases : list (nl_result FA * nl_result FA) := ["]
    lines.append(";\n".join(coq_nl_case(c) for c in nl_cases))
    lines.append("].")
    lines.append("Eval vm_compute in (failing_nl tb cases 0).")
    # reported success <-> max-norm of the (model's) residual below the tolerance
    tols = coq_list([coq_float(c["tol"]) for c in nl_cases])
    lines.append(f"Definition tols : list float := {tols}.")
    lines.append("Eval vm_compute in (map (fun ct => forallb (fun o => f_all_below (snd ct) (o_resid FA o)) "
                 "(r_blocks FA (fst (fst ct)))) (combine cases tols)).")
    lines.append("Definition lcases : list (variant FA * variant FA) := [")
    lines.append(";\n".join(coq_lin_case(c) for c in lin_cases))
    lines.append("].")
    lines.append("Eval vm_compute in (map (fun c => variant_eqb tb (fst c) (snd c)) lcases).")
    lines.append("Definition lcontracts : list (list float * list float) := [")
    lines.append(";\n".join(coq_lin_contract(c) for c in lin_cases))
    lines.append("].")
    lines.append(f"Eval vm_compute in (map (fun r => f_all_below {coq_float(LIN_TOL)} (fst r) && "
                 f"f_all_below {coq_float(LIN_TOL)} (snd r)) lcontracts).")
    return "\n".join(lines) + "\n"


# =====================================================================================================
# the property itself, stated on the public API (falsifier), evaluated with the independent evaluator
# =====================================================================================================

FALSIFY_DATES = (-3, -2, -1, 0, 1, 2, 3, 5)
FALSIFY_RTOL = 1e-8
# equation forms of the generator whose residual on a steady path is affine in time or geometric = geometric
EVERY_DATE_FORMS = ("lin", "loglin", "rw", "follow", "rwlog", "followlog", "geo", "meas", "rwpin")


def _unpack(d, name, i):
    v = d[name]
    return v[i] if isinstance(v, (list, tuple)) else v


def check_property(spec: dict, out: dict) -> list:
    """-> list of failure dicts (key, what, observed, required) for one model whose steady() completed"""
    m = out["model"]
    fails = []
    nv = spec["nv"]
    levels = dict(m.get_steady_levels(unpack_singleton=False))
    changes = dict(m.get_steady_changes(unpack_singleton=False))
    params = dict(m.get_parameters(unpack_singleton=False))
    shape = f"{spec['family']}:{'linear' if spec['linear'] else 'nonlinear'}:{'flat' if spec['flat'] else 'growth'}:" \
            f"{'plan' if spec['plan'] else 'noplan'}"
    plan = spec["plan"] or EMPTY_PLAN
    for i in range(nv):
        if not out.get("info_success", [True] * nv)[i]:
            continue

        def val(kind, name, shift, t=0):
            if kind == "shk":
                return 0.0
            if kind == "par":
                return float(_unpack(params, name, i))
            lv = _unpack(levels, name, i)
            ch = _unpack(changes, name, i)
            if lv is None or ch is None:
                return float("nan")
            k = t + shift
            return float(lv) * float(ch) ** k if name in spec["logs"] else float(lv) + float(ch) * k
        # 1. every steady equation at several dates on the path defined by the stored levels and changes.
        #    Dates other than t, t+1 are required only where "every date" follows from two dates (flat paths; residuals
        #    affine in time; geometric = geometric): for the other equations of growth models it is an assumption of
        #    balanced growth (every_date_partial) and misses are only counted
        # a log-variable whose stored level or gross rate of change is exactly 0.0 (exp underflow at a degenerate point
        # the solver accepted under its absolute tolerance) defines no geometric path: counted, not judged
        degenerate = any(_unpack(levels, nm, i) == 0.0 or _unpack(changes, nm, i) == 0.0 for nm in spec["logs"])
        for j, e in enumerate(spec["eqs"]):
            st = e.get("steady", e)
            strict_all = spec["flat"] or e["form"] in EVERY_DATE_FORMS
            for t in FALSIFY_DATES:
                def v(kind, name, shift, t=t):
                    return val(kind, name, shift, t)
                try:
                    lhs, rhs = tree_eval(st["lhs"], v), tree_eval(st["rhs"], v)
                    scale = tree_scale(st["lhs"], v) + tree_scale(st["rhs"], v)
                    res = lhs - rhs
                except (ValueError, OverflowError, ZeroDivisionError) as ex:
                    res, scale = float("nan"), 1.0
                if not (abs(res) <= FALSIFY_RTOL * (1.0 + scale)):
                    soft = not (strict_all or t in (0, 1))
                    if degenerate:
                        soft = True
                    fails.append({"key": ("degenerate-log-path:" if degenerate else "every-date-partial:" if soft
                                          else "residual:") + shape, "variant": i, "soft": soft,
                                  "what": f"steady equation `{render(st['lhs'], False)} = {render(st['rhs'], False)}` does not hold "
                                          f"at date t{t:+d} on the path of the stored steady levels and changes",
                                  "observed": {"residual": res, "date": t, "levels": {k: _unpack(levels, k, i) for k in spec['vars']},
                                               "changes": {k: _unpack(changes, k, i) for k in spec['vars']}},
                                  "required": f"|residual| <= {FALSIFY_RTOL}*(1+{scale:.3g})"})
                    break
        # 2. flat mode: constant paths
        if spec["flat"]:
            for nm in spec["vars"]:
                want = 1.0 if nm in spec["logs"] else 0.0
                if _unpack(changes, nm, i) != want:
                    fails.append({"key": f"flat-change:{shape}", "variant": i,
                                  "what": f"flat steady state stores change {_unpack(changes, nm, i)} for {nm}",
                                  "observed": _unpack(changes, nm, i), "required": want})
        # 3. fixed / exogenized quantities keep their assigned values
        for nm in plan["exogenize"] + plan["fix_level"]:
            a = spec["start"][nm][i]
            if a is not None and _unpack(levels, nm, i) != a[0]:
                fails.append({"key": f"fixed-level-moved:{shape}", "variant": i,
                              "what": f"the level of the fixed/exogenized {nm} was changed by steady()",
                              "observed": _unpack(levels, nm, i), "required": a[0]})
        for nm in plan["exogenize"] + plan["fix_change"]:
            a = spec["start"][nm][i]
            if a is not None and a[1] is not None and _unpack(changes, nm, i) != a[1]:
                fails.append({"key": f"fixed-change-moved:{shape}", "variant": i,
                              "what": f"the change of the fixed/exogenized {nm} was changed by steady()",
                              "observed": _unpack(changes, nm, i), "required": a[1]})
        # 4. parameters: only endogenized ones may move
        for k, vals in spec["param_values"].items():
            got = _unpack(params, k, i)
            if k in plan["endogenize"]:
                if got is None or got != got:
                    fails.append({"key": f"endogenized-missing:{shape}", "variant": i,
                                  "what": f"endogenized parameter {k} has no value", "observed": got, "required": "a number"})
            elif got != vals[i]:
                fails.append({"key": f"parameter-moved:{shape}", "variant": i,
                              "what": f"parameter {k} (not endogenized) was changed by steady()",
                              "observed": got, "required": vals[i]})
    return fails


def process_spec(spec: dict) -> dict:
    """one model: run the implementation, build the correspondence cases, evaluate the property"""
    out = run_impl(spec)
    res = {"error": out["error"], "nl": [], "lin": [], "fails": [], "harness_error": None, "plan_case": None,
           "shape": (spec["family"], "linear" if spec["linear"] else "nonlinear", "flat" if spec["flat"] else "growth",
                     "plan" if spec["plan"] else "noplan", f"nv{spec['nv']}", f"split={spec['split']}"),
           "nblocks": []}
    if out.get("model") is not None and spec.get("plan_hist"):
        try:
            res["plan_case"] = run_plan_history(out["model"], spec)
        except Exception as e:  # noqa
            import traceback
            res["harness_error"] = traceback.format_exc()[-1500:]
            return res
    if out["error"]:
        return res
    try:
        for V in out["variants"]:
            if V["kind"] == "nonlinear":
                res["nl"].append(nl_case(out, spec, V))
                res["nblocks"].append(len(V["blocks"]))
            else:
                res["lin"].append(lin_case(out, V))
        res["fails"] = check_property(spec, out)
    except Exception as e:  # noqa
        import traceback
        res["harness_error"] = traceback.format_exc()[-1500:]
    return res


def _worker(spec):
    core.use_repo_in_process()
    import warnings
    warnings.filterwarnings("ignore")
    try:
        return process_spec(spec)
    except Exception as e:  # noqa
        import traceback
        return {"error": None, "nl": [], "lin": [], "fails": [], "harness_error": traceback.format_exc()[-1500:],
                "shape": ("?",), "nblocks": [], "plan_case": None}


def run_many(specs: list, workdir=None) -> list:
    """run the models in fresh single-threaded interpreters (BLAS threads x processes would oversubscribe the cores)"""
    import json
    import subprocess
    import tempfile
    n = min(core.NCPU, 16, max(1, len(specs) // 4))
    if n <= 1:
        return [_worker(s) for s in specs]
    d = workdir or core.WORK / ID
    d.mkdir(parents=True, exist_ok=True)
    env = core.impl_env()
    for k in ("OMP_NUM_THREADS", "OPENBLAS_NUM_THREADS", "MKL_NUM_THREADS"):
        env[k] = "1"
    procs = []
    for i in range(n):
        fin, fout = d / f"specs_{i}.json", d / f"results_{i}.json"
        fin.write_text(json.dumps(specs[i::n]))
        if fout.exists():
            fout.unlink()
        procs.append((i, fout, subprocess.Popen(["/venv/bin/python", "-W", "ignore", "-m", "harness.C05", "--worker",
                                                 str(fin), str(fout)], cwd=str(core.VERIF), env=env,
                                                stdout=subprocess.DEVNULL, stderr=subprocess.PIPE, text=True)))
    results = [None] * len(specs)
    for i, fout, p in procs:
        _, err = p.communicate()
        if p.returncode != 0 or not fout.exists():
            raise RuntimeError(f"C05 worker {i} failed rc={p.returncode}: {err[-1500:]}")
        for j, r in enumerate(json.loads(fout.read_text())):
            results[i + j * n] = r
    return results


def _main_worker(fin, fout):
    import json
    specs = json.loads(open(fin).read())
    res = [_worker(s) for s in specs]
    open(fout, "w").write(json.dumps(res))


_CACHE = {}


def _runs(ctx):
    key = (ctx.seed, ctx.tier)
    if key not in _CACHE:
        n = int(os.environ.get("VERIF_C05_MODELS", 0)) or ctx.scale(240, 8000)     # override: development only
        specs = [gen_spec(ctx.rng) for _ in range(n)]
        _CACHE[key] = (specs, run_many(specs, ctx.work))
    return _CACHE[key]


def correspondence(ctx) -> CorrResult:
    specs, results = _runs(ctx)
    res = CorrResult()
    dist = {"models": len(specs), "completed": 0, "not_converged_or_error": 0, "shapes": {}, "blocks_per_variant": {},
            "errors": {}}
    nl_all, lin_all, plan_all = [], [], []
    for spec, r in zip(specs, results):
        if r["harness_error"]:
            res.disagreements.append(Disagreement("harness", {"source": source_text(spec)}, None, r["harness_error"]))
            continue
        if r.get("plan_case"):
            plan_all.append((spec, r["plan_case"]))
        if r["error"]:
            dist["not_converged_or_error"] += 1
            k = r["error"].split(":")[1].strip() if ":" in r["error"] else r["error"]
            dist["errors"][k] = dist["errors"].get(k, 0) + 1
            continue
        dist["completed"] += 1
        sh = "/".join(r["shape"])
        dist["shapes"][sh] = dist["shapes"].get(sh, 0) + 1
        for nb in r["nblocks"]:
            dist["blocks_per_variant"][str(nb)] = dist["blocks_per_variant"].get(str(nb), 0) + 1
        for c in r["nl"]:
            nl_all.append((spec, c))
        for c in r["lin"]:
            lin_all.append((spec, c))
    res.evaluations = len(nl_all) + len(lin_all) + len(plan_all)
    dist["plan_histories"] = {"cases": len(plan_all), "calls": sum(len(c["hist"]) for _, c in plan_all),
                              "calls_that_raised": sum(len(c["errors"]) for _, c in plan_all),
                              "growth": sum(1 for _, c in plan_all if not c["flat"]),
                              "distinct": len({repr(c["hist"]) + repr(c["endog"]) + repr(c["flat"]) for _, c in plan_all})}
    res.distinct_nontrivial = len({repr(c["xtrings"]) + repr(c["levels"]) + repr(c["orcs"]) for _, c in nl_all
                                   if c["orcs"]}) + len({repr(c["sys"]) for _, c in lin_all})
    res.distribution = dist
    res.rule = ("one generated model with a steady state (stationary / unit root with drift / balanced growth with log-variables; "
                "1-7 equations; linear or nonlinear; flat or growth; optional !! steady versions; random parameters and starting "
                "values, some far from the steady state; models whose residual norm has non-zero local minima started at the bad points; "
                "optional steady plan; 1-2 variants; split_into_blocks None/True/False; solver default / neqs_levenberg / scipy_root "
                "with and without solver_settings; called as steady or solve_steady) run through the public method; one "
                "case per parameter variant; non-trivial = at least one block was handed to the solver (nonlinear) or a linear "
                "system was solved; distinct = distinct (equations, starting values, recorded solver output).  Plan histories: per "
                "generated model one random history of 1-10 public SteadyPlan calls (the twelve methods; names singly, as lists, "
                "Ellipsis; some invalid) played on a fresh SteadyPlan and on the register machine of model/SteadyPlan.v; the four "
                "registers and the raised/not-raised flag after EVERY call, the qid tuples of _resolve_steady_wrt and the default of "
                "_resolve_split_into_blocks for the final plan are compared exactly")
    res.samples = [{"source": source_text(s), "plan": s["plan"], "flat": s["flat"], "linear": s["linear"],
                    "expect": c["expect"]} for s, c in nl_all[:2]] + \
                  [{"source": source_text(s), "flat": s["flat"], "expect": c["expect"]} for s, c in lin_all[:1]]
    if len(specs) and dist["completed"] < 0.6 * len(specs):
        res.disagreements.append(Disagreement(
            "too few generated models complete steady() without error", dist["errors"], ">= 60%",
            f"{dist['completed']}/{len(specs)}"))
    # shards
    per_nl, per_lin = ctx.scale(40, 100), ctx.scale(20, 50)
    nsh = max(1, math.ceil(len(nl_all) / per_nl), math.ceil(len(lin_all) / per_lin))
    shards = []
    for k in range(nsh):
        a = nl_all[k * len(nl_all) // nsh:(k + 1) * len(nl_all) // nsh]
        b = lin_all[k * len(lin_all) // nsh:(k + 1) * len(lin_all) // nsh]
        shards.append((a, b))
    texts = [shard_text([c for _, c in a], [c for _, c in b]) for a, b in shards]
    per_plan = 150
    plan_shards = [plan_all[k:k + per_plan] for k in range(0, len(plan_all), per_plan)]
    texts += [plan_shard_text([c for _, c in a]) for a in plan_shards]
    results = core.run_cases(ctx, texts)
    res.shards = len(texts)
    for a, (ok, outp) in zip(plan_shards, results[len(shards):]):
        if not ok:
            res.disagreements.append(Disagreement("plan-history cases shard does not evaluate", None, outp[-800:], None))
            continue
        bodies = core.parse_eval_lists(outp)
        if len(bodies) != 1:
            res.disagreements.append(Disagreement("plan-history cases shard: unparsable output", None, outp[-800:], None))
            continue
        for i in core.parse_nat_list(bodies[0]):
            spec, c = a[i]
            res.disagreements.append(Disagreement(
                "plan-history", {"source": source_text(spec), "flat": spec["flat"], "history": spec["plan_hist"]},
                "the register machine of model/SteadyPlan.v run on the same calls gives other registers / ok flags / "
                "_resolve_steady_wrt qids / split default",
                {"trace": c["trace"], "wrt": c["wrt"], "split": c["split"]}))
    results = results[:len(shards)]
    comp = {1: "wrt_qids", 2: "fixed_level_qids", 3: "fixed_change_qids", 4: "block observations (index masks / initial guess / "
            "residual vector at the final guess)", 5: "stored levels after write-back", 6: "stored changes after write-back"}
    for k, (ok, outp) in enumerate(results):
        a, b = shards[k]
        if not ok:
            res.disagreements.append(Disagreement(f"cases shard {k} does not evaluate", None, outp[-800:], None))
            continue
        bodies = core.parse_eval_lists(outp)
        if len(bodies) != 4:
            res.disagreements.append(Disagreement(f"cases shard {k}: unparsable output", None, outp[-800:], None))
            continue
        import re
        differing = set()
        for i, d in re.findall(r"\((\d+)(?:%nat)?, (\d+)(?:%nat)?\)", bodies[0]):
            differing.add(int(i))
            spec, c = a[int(i)]
            res.disagreements.append(Disagreement(f"nonlinear:{comp[int(d)]}",
                                                  {"source": source_text(spec), "plan": spec["plan"], "flat": spec["flat"],
                                                   "split": spec["split"], "levels": c["levels"], "changes": c["changes"],
                                                   "orcs": c["orcs"]},
                                                  "model result differs in: " + comp[int(d)], c["expect"]))
        flags = re.findall(r"true|false", bodies[1])
        for i, fl in enumerate(flags):
            if fl == "false" and i not in differing:
                spec, c = a[i]
                res.disagreements.append(Disagreement("success-criterion", {"source": source_text(spec)},
                                                      "solver reported success, so max|residual| < tolerance",
                                                      [b_["resid"] for b_ in c["expect"]["blocks"]]))
        for i, fl in enumerate(re.findall(r"true|false", bodies[2])):
            if fl == "false":
                spec, c = b[i]
                res.disagreements.append(Disagreement("linear:write-back", {"source": source_text(spec), "sys": c["sys"]},
                                                      "model result differs", c["expect"]))
        for i, fl in enumerate(re.findall(r"true|false", bodies[3])):
            if fl == "false":
                spec, c = b[i]
                res.disagreements.append(Disagreement("linear:lstsq-contract", {"source": source_text(spec), "sys": c["sys"]},
                                                      f"the recorded solution solves the stacked system within {LIN_TOL}", None))
    return res


def falsify(ctx, hints):
    specs, results = _runs(ctx)
    fails, info = [], {"models": len(specs), "completed": 0, "equation_date_checks": 0, "failures": 0}
    seen = set()
    for spec, r in zip(specs, results):
        if r["error"] or r["harness_error"]:
            continue
        info["completed"] += 1
        info["equation_date_checks"] += len(spec["eqs"]) * len(FALSIFY_DATES) * spec["nv"]
        for f in r["fails"]:
            if f.get("soft") and f["key"].startswith("degenerate-log-path:"):
                info["degenerate_log_paths"] = info.get("degenerate_log_paths", 0) + 1
                continue
            if f.get("soft"):
                info["every_date_partial_misses"] = info.get("every_date_partial_misses", 0) + 1
                info.setdefault("every_date_partial_sample", {"source": source_text(spec), "what": f["what"],
                                                               "observed": f["observed"]})
                continue
            info["failures"] += 1
            if f["key"] in seen:
                continue
            seen.add(f["key"])
            inp = {"source": source_text(spec), "spec": _jsonable(spec), "variant": f["variant"]}
            fails.append(Failure(f["key"], f["what"], inp, f["observed"], f["required"],
                                 "m = irispie.Simultaneous.from_string(source, linear=spec['linear'], flat=spec['flat']); "
                                 "m.assign(...); m.steady(plan=..., split_into_blocks=spec['split']); see harness/C05.py build_model"))
    return fails, info


def _jsonable(spec):
    import json
    return json.loads(json.dumps(spec))


def _retuple(t):
    if isinstance(t, list) and t and isinstance(t[0], str) and t[0] in ("num", "int", "var", "par", "shk", "+", "-", "*", "/",
                                                                          "^", "neg", "exp", "log"):
        return tuple(_retuple(x) for x in t)
    return t


def replay(ctx, failure: dict):
    spec = failure["input"]["spec"]
    for e in spec["eqs"]:
        e["lhs"], e["rhs"] = _retuple(e["lhs"]), _retuple(e["rhs"])
        if "steady" in e:
            e["steady"] = {"lhs": _retuple(e["steady"]["lhs"]), "rhs": _retuple(e["steady"]["rhs"])}
    core.use_repo_in_process()
    r = process_spec(spec)
    for f in r["fails"]:
        if f["key"] == failure["key"] and not f.get("soft"):
            return Failure(f["key"], f["what"], failure["input"], f["observed"], f["required"])
    return None


if __name__ == "__main__":
    import sys
    if len(sys.argv) == 4 and sys.argv[1] == "--worker":
        _main_worker(sys.argv[2], sys.argv[3])
