"""Shared pieces for the Series-based correspondences (C10, C12, C13): building
implementation Series from specs, observing them, and writing the same values as
Coq literals of model/Series.v over the PrimFloat carrier."""
from __future__ import annotations

import math

import numpy as np

from vf.core import coq_float, coq_z, coq_list

FREQS = {1: "YEARLY", 2: "HALFYEARLY", 4: "QUARTERLY", 12: "MONTHLY", 365: "DAILY", 0: "INTEGER"}

ERR_CLASS = {"TypeError": 1, "AttributeError": 1, "IrisPieError": 2, "IrisPieCritical": 2, "ValueError": 3}


def err_code(e: BaseException) -> int:
    return ERR_CLASS.get(type(e).__name__, 9)


def period_class(freq: int):
    import irispie as ir
    from irispie import dates as d
    return d.PERIOD_CLASS_FROM_FREQUENCY_RESOLUTION[d.Frequency(freq)]


def mk_period(freq: int, serial: int):
    return period_class(freq)(serial)


def mk_series(spec: dict):
    """spec = {freq, start (serial or None), nv, rows: [[float]*nv]}; built without trimming."""
    import irispie as ir
    s = ir.Series(num_variants=spec["nv"])
    if spec["start"] is not None:
        s.start = mk_period(spec["freq"], spec["start"])
        s.data = np.array(spec["rows"], dtype=float).reshape(len(spec["rows"]), spec["nv"])
    return s


def observe(s) -> dict:
    """Observable state of an implementation Series."""
    data = np.asarray(s.data, dtype=float)
    return {
        "freq": int(s.start.frequency) if s.start is not None else 0,
        "start": int(s.start.serial) if s.start is not None else None,
        "nv": int(data.shape[1]),
        "rows": [[float(v) for v in r] for r in data.tolist()],
    }


def coq_row(r) -> str:
    return coq_list([coq_float(float(v)) for v in r])


def coq_series(o: dict) -> str:
    st = "None" if o["start"] is None else f"(Some {coq_z(o['start'])})"
    rows = coq_list([coq_row(r) for r in o["rows"]])
    return f"(mkSeries (A:=FA) {coq_z(o['freq'])} {st} {o['nv']}%nat {rows})"


def coq_res_series(out: dict) -> str:
    if "err" in out:
        return f"(Err {out['err']}%nat)"
    return f"(Ok {coq_series(out['ok'])})"


def rand_series_spec(rng, freq=None, nv=None, pool=None, maxlen=10, allow_empty=True, positive=False,
                     p_nan=0.12, trimmed=True) -> dict:
    freq = freq if freq is not None else rng.choice([1, 2, 4, 12, 365, 0])
    nv = nv if nv is not None else rng.choice([1, 1, 1, 2, 3])
    if allow_empty and rng.random() < 0.04:
        return {"freq": 0, "start": None, "nv": nv, "rows": []}
    n = rng.randint(1, maxlen)
    if freq == 365:
        start = 730000 + rng.randint(0, 4000)
    elif freq == 0:
        start = rng.randint(-20, 40)
    else:
        start = (1995 + rng.randint(0, 30)) * freq + rng.randint(0, freq - 1)
    rows = []
    for i in range(n):
        row = []
        for c in range(nv):
            if rng.random() < p_nan:
                row.append(float("nan"))
            else:
                v = rng.choice(pool) if pool else rng.randint(-40, 40) / 4.0
                if positive:
                    v = abs(v) if v != 0 else 1.0
                row.append(float(v))
        rows.append(row)
    if trimmed:
        # first and last rows not all-missing (what every constructor of the library guarantees)
        for idx in (0, -1):
            if all(math.isnan(v) for v in rows[idx]):
                v = rng.choice(pool) if pool else 1.0
                rows[idx][rng.randrange(nv)] = abs(float(v)) if positive and v != 0 else (float(v) if not positive else 1.0)
    return {"freq": freq, "start": start, "nv": nv, "rows": rows}


def floats_equal(a: float, b: float) -> bool:
    if a != a:
        return b != b
    return a == b


def obs_equal(a: dict, b: dict) -> bool:
    if a["start"] != b["start"] or a["nv"] != b["nv"] or len(a["rows"]) != len(b["rows"]):
        return False
    if a["start"] is not None and a["freq"] != b["freq"]:
        return False
    return all(floats_equal(x, y) for ra, rb in zip(a["rows"], b["rows"]) for x, y in zip(ra, rb))
