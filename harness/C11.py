"""C11  Period conversions round-trip; frequency conversion preserves containment."""
from __future__ import annotations

import calendar
import datetime as dt

from vf import core
from vf.core import CorrResult, Disagreement, Failure, coq_z
from translator import dates as tr
from translator import codecs_ext as tr2
from . import C09 as d9
from . import c11_ext as ext
from .C09 import (oZ, oB, oL, oP, attempt, coq_spec, mk_py, spec_freq, rand_spec, py_spec, REG, FREQS, POS, MAXORD, ERRNAME,
                  hstep, h_try, _mix, M63, run_snippet, PRELUDE, Checker)

ID = "C11"
PROPS = "props/C11.v"
GENERATED = [tr.OUT, tr2.OUT]
CASE_DEPS = ["lib/CaseUtil.vo", "model/Codecs.vo", "model/CodecsExt.vo", "model/CodecsExt2.vo"]
ALLOWED_AXIOMS: set = set()
TRUSTED = [
    "translator/dates.py: SDMX_REXP_FORMATS (regex strings -> regex ASTs), every to_sdmx/__repr__/to_iso f-string (-> format "
    "pieces), every from_sdmx_string body (-> parser descriptor), month_to_segment, the start/middle/end day tables",
    "lib/PyStr.v models str(int), int(str) on [+-]?digits, '{:0Wg}' for 0 <= n < 10^6, tuple repr, str.strip/removeprefix/"
    "removesuffix/split; lib/RegexSub.v models re.fullmatch for the pattern subset (language semantics, proved = derivative matcher)",
    "eval(repr(p)): the repr grammar name(int{,int}) is parsed by model/CodecsExt2.parse_repr (proved: the text of repr parses "
    "to the structured term, whose evaluation is p); Python's eval of such a text = the constructor applied to the integers is "
    "tied by correspondence (parse_repr on the implementation's repr text vs eval(text); repr text compared exactly)",
    "Series.set_data with repeated periods keeps the last row written (model/CodecsExt2.series_lookup): correspondence only "
    "(sheet_series: sheets with repeated / unsorted date cells)",
    "CPython datetime/calendar as the calendar oracle (see C09)",
    "translator/codecs_ext.py: the path of period_from_string / date_formatter through Databox.from_csv_file, _block_iterator, "
    "_extract_periods_from_data_rows, _ExportBlock.__iter__ (pinned statement shapes, no other binding of the names), the int() "
    "casts of Period.__init__/__add__/__sub__; the CSV reader/writer (csv module, numpy.genfromtxt), the mark -> frequency "
    "decoding and Series.set_data are covered by the correspondence only (sheet_import / sheet_export / sheet_roundtrip)",
    "numpy integer semantics in model/CodecsExt.v: a numpy scalar combined with an int is a numpy scalar, int(x) is a builtin "
    "int, repr of a numpy scalar inside a tuple is np.int64(n) (numpy >= 2; widths and overflow are not modelled)",
]
ASSUMPTIONS = [
    "supported calendar = years 1..9999 (SDMX/ISO strings use a four-digit year); integer periods: every integer",
    "strings fed to the parsers are those the library produces (optionally padded with blanks); Python's int() accepts more "
    "(underscores, inner blanks) than the model's [+-]?digits",
]
MANIFEST = {
    "technique": "Coq proof: string codecs over a verified str/int/format model and a verified regex matcher, all tables/patterns/"
                 "formats regenerated from dates.py; calendar containment and monotonicity over lib/Calendar.v; exact correspondence "
                 "incl. exhaustive block digests of every codec",
    "level_text": "Theorems (props/C11.v): decode(encode(p)) = p for SDMX strings (with the frequency auto-detected through the "
                  "regenerated SDMX_REXP_FORMATS table, all six period classes), ISO strings, (year, segment), (year, month, day) "
                  "at start/middle/end, Python dates and repr terms, for every period of years 1..9999 / every integer; refrequent "
                  "returns the target period containing the chosen day, is monotone, and coarse -> fine -> coarse is the identity "
                  "for every ordered pair of calendar frequencies and every pair of positions.",
    "level_note": "Trusted: Coq kernel + vm_compute, translator/dates.py, harness, CPython datetime; Python's eval of repr text and "
                  "int()'s wider input grammar are outside the model.",
}

NAMES = {1: "YEARLY", 2: "HALFYEARLY", 4: "QUARTERLY", 12: "MONTHLY", 365: "DAILY", 0: "INTEGER", 52: "WEEKLY"}


def translate(ctx):
    tr.run()
    tr2.run()


def str_digest(s: str) -> int:
    h = 11
    for ch in s:
        h = _mix(h, ord(ch))
    return h


def oS(s):
    if not isinstance(s, str):
        raise TypeError("not a string")
    return oL([oZ(len(s)), oZ(str_digest(s))])


def coq_str(s: str) -> str:
    assert all(32 <= ord(c) <= 126 for c in s), s
    return '"' + s.replace('"', '""') + '"'


def in_cal(spec) -> bool:
    return spec[0] == "int" or 1 <= spec[2 if spec[0] == "reg" else 1] <= 9999


# ------------------------------------------------------------------ cases

def cal_spec(rng, **kw):
    """a period spec whose year stays inside 1..9999 also when the segment is sloppy (yy(1, -1) is year -1: outside the
    supported calendar and outside the '{:04g}' model)"""
    while True:
        s = rand_spec(rng, **kw)
        if s[0] != "reg":
            return s
        y = (s[2] * s[1] + s[3] - 1) // s[1]
        if 1 <= y <= 9999:
            return s


def gen_case(rng, pool: list[str]) -> dict:
    kind = rng.choice(["to_sdmx", "repr", "to_iso", "from_sdmx", "from_sdmx", "from_sdmx_as", "from_iso", "detect", "refrequent",
                       "refrequent", "refrequent", "eval_repr", "pydate", "sdmx_rt", "iso_rt", "from_list", "repr_parse_eval", "parse_repr"])
    c = {"kind": kind}
    if kind in ("to_sdmx", "repr", "eval_repr", "sdmx_rt", "repr_parse_eval"):
        c["s"] = cal_spec(rng, sloppy=0.02)
    elif kind == "parse_repr":
        # the text the implementation's repr writes, fed to the model's parser of the repr grammar
        try:
            c["x"] = repr(mk_py(cal_spec(rng, sloppy=0))) if rng.random() < 0.85 else f"ii({rng.randint(-10 ** 9, 10 ** 6)})"
        except Exception:  # noqa
            c["x"] = "ii(-3)"
    elif kind in ("to_iso", "pydate", "iso_rt"):
        c["s"] = cal_spec(rng, freq=rng.choice([1, 2, 4, 12, 365]), sloppy=0.02)
        c["pos"] = rng.randrange(3)
    elif kind == "refrequent":
        c["s"] = cal_spec(rng, freq=rng.choice([1, 2, 4, 12, 365]), sloppy=0.02)
        # (the INTEGER class is not a conversion target: IntegerPeriod inherits the static Period.from_ymd(freq, ...),
        #  which looks the *year* up as a frequency -- outside the property and outside the model)
        c["f"] = rng.choice([1, 2, 4, 12, 365])
        c["pos"] = rng.randrange(3)
    elif kind in ("from_sdmx", "detect", "from_sdmx_as", "from_list"):
        r = rng.random()
        if r < 0.8 and pool:
            x = rng.choice(pool)
            if rng.random() < 0.25 and not (len(x) == 10 and x[4] == "-"):
                x = " " * rng.randint(0, 2) + x + " " * rng.randint(0, 2)
        else:
            x = rng.choice(["2020-Q5", "2020-Q0", "2020-W01", "abcd", "(5),", "(+7)", "(-12)", "(12", "20-Q1", "2020-H3",
                            "2020-13", "2020-00", "2021-02-29", "2020-02-30", "0000", "12345", "(x)", "2020Q1", "", "()",
                            "2020-Q12", "9999-12-31", "0001-01-01", "2020-1-5"])
        c["x"] = x
        if kind == "from_sdmx_as":
            c["f"] = rng.choice([1, 2, 4, 12, 365, 0])
        if kind == "from_list":
            c["xs"] = [x] + [rng.choice(pool) for _ in range(rng.randint(0, 3))]
    elif kind == "from_iso":
        y = d9.rand_year(rng)
        m = rng.randint(1, 12)
        dim = calendar.monthrange(y, m)[1]
        d = rng.choice([1, dim, rng.randint(1, dim)])
        c["x"] = f"{y:04d}-{m:02d}-{d:02d}" if rng.random() < 0.9 else rng.choice(["2020-02-30", "2020-13-01", "2020-01", "x-y-z"])
        c["f"] = rng.choice([1, 2, 4, 12, 365, 365])
    return c


EXT_KINDS = ("arith", "sheet_import", "sheet_export", "sheet_roundtrip", "sheet_series")


def gen_ext_case(rng) -> dict:
    kind = rng.choice(["arith", "arith", "sheet_import", "sheet_import", "sheet_export", "sheet_roundtrip", "sheet_series"])
    if kind == "sheet_series":
        return ext.gen_sheet_series(rng, cal_spec)
    if kind == "arith":
        return ext.gen_arith(rng, cal_spec)
    if kind == "sheet_import":
        return ext.gen_sheet_import(rng, cal_spec)
    return ext.gen_sheet_roundtrip(rng, cal_spec, kind)


WORK_DIR = {"path": None}


def run_case(c: dict):
    import irispie as ir
    kind = c["kind"]
    if kind == "arith":
        return ext.run_arith(c, oS)
    if kind in ("sheet_import", "sheet_series"):
        return ext.run_sheet_import(c, WORK_DIR["path"])
    if kind == "sheet_export":
        return ext.run_sheet_export(c, WORK_DIR["path"], oS)
    if kind == "sheet_roundtrip":
        return ext.run_sheet_roundtrip(c, WORK_DIR["path"])

    def go():
        if kind == "from_sdmx":
            return oP(ir.Period.from_sdmx_string(c["x"]))
        if kind == "from_sdmx_as":
            return oP(ir.Period.from_sdmx_string(c["x"], frequency=ir.Frequency(c["f"])))
        if kind == "from_list":
            return oL([oP(p) for p in ir.periods_from_sdmx_strings(c["xs"])])
        if kind == "detect":
            return oZ(ir.Frequency.from_sdmx_string(c["x"]).value)
        if kind == "from_iso":
            return oP(ir.Period.from_iso_string(c["x"], frequency=ir.Frequency(c["f"])))
        if kind == "parse_repr":
            return oP(eval(c["x"], {"yy": ir.yy, "hh": ir.hh, "qq": ir.qq, "mm": ir.mm, "dd": ir.dd, "ii": ir.ii}))
        p = mk_py(c["s"])
        if kind == "to_sdmx":
            s = p.to_sdmx_string()
            if str(p) != s or f"{p}" != s:
                raise AssertionError("str(p) differs from to_sdmx_string()")
            return oS(s)
        if kind == "repr":
            return oS(repr(p))
        if kind in ("eval_repr", "repr_parse_eval"):
            return oP(eval(repr(p), {"yy": ir.yy, "hh": ir.hh, "qq": ir.qq, "mm": ir.mm, "dd": ir.dd, "ii": ir.ii}))
        if kind == "to_iso":
            return oS(p.to_iso_string(position=POS[c["pos"]]))
        if kind == "pydate":
            t = p.to_python_date(position=POS[c["pos"]])
            return oL([oZ(t.year), oZ(t.month), oZ(t.day)])
        if kind == "refrequent":
            return oP(p.refrequent(ir.Frequency(c["f"]), position=POS[c["pos"]]))
        if kind == "sdmx_rt":
            return oP(ir.Period.from_sdmx_string(p.to_sdmx_string()))
        if kind == "iso_rt":
            return oP(ir.Period.from_iso_string(p.to_iso_string(position=POS[c["pos"]]), frequency=p.frequency))
        raise AssertionError(kind)
    return attempt(go)


def coq_case(c: dict) -> str:
    kind = c["kind"]
    if kind == "arith":
        return ext.coq_arith(c)
    if kind == "sheet_import":
        return ext.coq_sheet_import(c)
    if kind == "sheet_series":
        return ext.coq_sheet_import(c).replace("c_sheet_import", "c_sheet_series", 1)
    if kind == "parse_repr":
        return f"c_parse_repr {coq_str(c['x'])}"
    if kind in ("sheet_export", "sheet_roundtrip"):
        return ext.coq_sheet_rt(c)
    if kind == "from_sdmx":
        return f"c_from_sdmx {coq_str(c['x'])}"
    if kind == "from_sdmx_as":
        return f"c_from_sdmx_as {c['f']} {coq_str(c['x'])}"
    if kind == "from_list":
        return "c_from_list [" + "; ".join(coq_str(x) for x in c["xs"]) + "]"
    if kind == "detect":
        return f"c_detect {coq_str(c['x'])}"
    if kind == "from_iso":
        return f"c_from_iso {c['f']} {coq_str(c['x'])}"
    s = coq_spec(c["s"])
    if kind == "to_sdmx":
        return f"c_to_sdmx {s}"
    if kind == "repr":
        return f"c_repr {s}"
    if kind == "eval_repr":
        return f"c_eval_repr {s}"
    if kind == "repr_parse_eval":
        return f"c_repr_parse_eval {s}"
    if kind == "to_iso":
        return f"c_to_iso {c['pos']} {s}"
    if kind == "pydate":
        return f"c_pydate {c['pos']} {s}"
    if kind == "refrequent":
        return f"c_refrequent {c['f']} {c['pos']} {s}"
    if kind == "sdmx_rt":
        return f"c_sdmx_roundtrip {s}"
    if kind == "iso_rt":
        return f"c_iso_roundtrip {c['pos']} {s}"
    raise AssertionError(kind)


# ------------------------------------------------------------------ exhaustive codec digests

def h_str(h, s):
    h = _mix(h, len(s))
    for ch in s:
        h = _mix(h, ord(ch))
    return h


def h_per(h, p):
    return hstep(hstep(h, p.frequency.value), p.serial)


def codec_digest(h, p, ir, ns):
    F = ir.Frequency
    steps = [
        lambda h: h_str(h, p.to_sdmx_string()),
        lambda h: h_per(h, ir.Period.from_sdmx_string(p.to_sdmx_string())),
        lambda h: h_str(h, repr(p)),
        lambda h: h_per(h, eval(repr(p), ns)),
        lambda h: h_str(h, p.to_iso_string(position="end")),
        lambda h: h_per(h, ir.Period.from_iso_string(p.to_iso_string(position="middle"), frequency=p.frequency)),
        lambda h: h_per(h, p.refrequent(F.YEARLY, position="start")),
        lambda h: h_per(h, p.refrequent(F.HALFYEARLY, position="middle")),
        lambda h: h_per(h, p.refrequent(F.QUARTERLY, position="end")),
        lambda h: h_per(h, p.refrequent(F.MONTHLY, position="middle")),
        lambda h: h_per(h, p.refrequent(F.DAILY, position="end")),
    ]
    for st in steps:
        h = h_try(h, st)
    return h


def codec_block(f: int, first: int, count: int) -> int:
    import irispie as ir
    ns = {"yy": ir.yy, "hh": ir.hh, "qq": ir.qq, "mm": ir.mm, "dd": ir.dd, "ii": ir.ii}
    if f == 365:
        p0 = ir.Period.from_python_date(dt.date.fromordinal(first))
    elif f == 0:
        p0 = ir.ii(first)
    else:
        p0 = ir.Period.from_year_segment(ir.Frequency(f), first // f, first % f + 1)
    if p0.serial != first:
        return -1          # the constructor itself is off: reported as a digest mismatch of this block
    h = 0
    for k in range(count):
        h = codec_digest(h, p0 + k, ir, ns)
    return h


def _pool_block(args):
    core.use_repo_in_process()
    return codec_block(*args)


def block_plan(ctx):
    rng = ctx.rng
    blocks = []
    if ctx.thorough:
        for f in REG:
            for y0 in range(1, 10000, 50):
                y1 = min(y0 + 50, 10000)
                blocks.append((f, y0 * f, (y1 - y0) * f))
        years = set(list(range(1, 4)) + list(range(98, 102)) + list(range(398, 402)) + list(range(1898, 1902))
                    + list(range(1998, 2002)) + list(range(2019, 2026)) + list(range(9996, 10000))
                    + [rng.randint(1, 9999) for _ in range(25)])
        for y in sorted(years):
            o = dt.date(y, 1, 1).toordinal()
            blocks.append((365, o, dt.date(y, 12, 31).toordinal() - o + 1))
        for a in (-1500, 99000, -10 ** 6, 10 ** 9):
            blocks.append((0, a, 3000))
    else:
        for f in REG:
            for y0 in [1, 990, 1895, 1995, 2015, 9980] + [rng.randint(1, 9980) for _ in range(3)]:
                blocks.append((f, y0 * f, 15 * f))
        for o in [1, MAXORD - 249, dt.date(2000, 2, 1).toordinal(), dt.date(1900, 2, 1).toordinal(),
                  dt.date(2023, 11, 15).toordinal()] + [rng.randint(1, MAXORD - 250) for _ in range(3)]:
            blocks.append((365, o, 250))
        blocks.append((0, -150, 300))
        blocks.append((0, rng.randint(-10 ** 7, 10 ** 7), 100))
    return blocks


HEADER = d9.HEADER.replace("model.Dates.", "model.Dates model.Codecs gen.CodecsExtGen model.CodecsExt model.CodecsExt2.").replace(
    "lib.CaseUtil", "lib.PyStr lib.CaseUtil") + """
Definition c_from_list (xs : list string) : obs :=
  match xs with
  | [] => OL []
  | x :: _ => match detect (s2l x) with
              | None => OE ErrFreq
              | Some f => obs_of (fun l => OL (map OP l))
                            (fold_right (fun y acc => bind (from_sdmx_as f (s2l y)) (fun p => dmap (cons p) acc)) (Ok []) xs)
              end
  end.
"""


def correspondence(ctx) -> CorrResult:
    import irispie as ir
    rng = ctx.rng
    res = CorrResult()
    items = []
    dist = {"kinds": {}, "errors": {}, "frequencies": {}, "blocks": {}}
    n = ctx.scale(6000, 80000)
    # strings the library itself produces
    pool = []
    for _ in range(400):
        s = rand_spec(rng, sloppy=0)
        try:
            pool.append(mk_py(s).to_sdmx_string())
        except Exception:  # noqa
            pass
    nontrivial = set()
    import tempfile
    WORK_DIR["path"] = tempfile.mkdtemp(prefix="c11_")
    n_ext = ctx.scale(450, 8000)
    every = (n + n_ext) // n_ext                   # the new kinds are heavier on the Coq side: spread them over the shards
    for k in range(n + n_ext):
        c = gen_ext_case(rng) if k % every == every - 1 else gen_case(rng, pool)
        o = run_case(c)
        items.append((f"codec:{c['kind']}", c, coq_case(c), o))
        d9._bump(dist["kinds"], c["kind"])
        if "s" in c:
            d9._bump(dist["frequencies"], str(spec_freq(c["s"])))
        if o[0] == "E":
            d9._bump(dist["errors"], ERRNAME[o[1]])
        else:
            nontrivial.add(repr(c))
    blocks = block_plan(ctx)
    if ctx.thorough:
        import multiprocessing as mp
        with mp.get_context("fork").Pool(min(core.NCPU, 16)) as pool_:
            digests = pool_.map(_pool_block, blocks, chunksize=2)
    else:
        digests = [_pool_block(b) for b in blocks]
    covered = 0
    for b, dg in zip(blocks, digests):
        items.append((f"digest:codec:{b[0]}", {"block": b}, f"c_codec_block {coq_z(b[0])} {coq_z(b[1])} {b[2]}%nat", oZ(dg)))
        covered += b[2]
        d9._bump(dist["blocks"], str(b[0]))
        nontrivial.add(repr(b))
    dist["periods_in_digests"] = covered
    res.evaluations = len(items)
    res.distinct_nontrivial = len(nontrivial)
    res.distribution = dist
    res.rule = ("one codec call per case through the public API (to_sdmx_string/str, repr, eval(repr), to_iso_string, "
                "to_python_date, Period.from_sdmx_string with and without frequency, periods_from_sdmx_strings, "
                "Frequency.from_sdmx_string, Period.from_iso_string, refrequent, and the two string round trips) on periods of all "
                "six classes, on strings the library produced (optionally blank-padded) and on malformed strings; arithmetic "
                "histories with int / numpy offsets (period, type of .serial, repr text); multi-frequency sheets: import of "
                "harness-written date columns (coinciding ISO texts under different marks, gaps, malformed cells, start_period_only), "
                "date cells written by to_csv_file under each date formatter, and databox -> to_csv_file -> from_csv_file; plus rolling "
                "digests of eleven codec results for every period of a block; non-trivial = the implementation returned a value; "
                "distinct = distinct case text")
    res.samples = [{"case": it[1], "model_call": it[2][:200], "impl": str(it[3])[:200]} for it in (items[0], items[1], items[-1])]
    res.notes.append(f"{covered} periods covered by codec digests in {len(blocks)} blocks")
    old = d9.HEADER
    d9.HEADER = HEADER
    try:
        d9.finish_cases(ctx, res, items, per_small=500, per_big=6 if ctx.thorough else 3)
    finally:
        d9.HEADER = old
    return res


# ------------------------------------------------------------------ falsifier

def falsify(ctx, hints):
    import irispie as ir
    rng = ctx.rng
    ck = Checker()
    NS = "ns = dict(yy=ir.yy, hh=ir.hh, qq=ir.qq, mm=ir.mm, dd=ir.dd, ii=ir.ii)\n"
    # directed corpus first: the periods holding the end of February of century / leap / ordinary years (the only
    # year-dependent day of the calendar tables), for every calendar frequency
    corpus = []
    for y in (1600, 1700, 1900, 2000, 2100, 2200, 2400, 2023, 2024, 4, 100, 400):
        corpus += [(12, ("reg", 12, y, 2)), (4, ("reg", 4, y, 1)), (2, ("reg", 2, y, 1)), (1, ("reg", 1, y, 1)),
                   (365, ("day", y, 2, 28)), (365, ("doy", y, 60))]
    n_random = ctx.scale(600, 5000)
    for it in range(n_random + len(corpus)):
        if it < len(corpus):
            f, s = corpus[it]
        else:
            f = rng.choice(FREQS)
            s = rand_spec(rng, freq=f, lo=1, hi=9950, sloppy=0)      # room for a later period inside the supported calendar
        P = py_spec(s)
        if it % 3 == 0:
            # lists of SDMX strings: the i-th result is the period of the i-th string whatever the order of the list
            # (ascending, descending, interior permuted, repeats with gaps, end points exactly len-1 apart)
            m_ = rng.randint(3, 7)
            offs = list(range(m_))
            kind_ = rng.choice(["asc", "desc", "interior", "repeat-gap", "shuffle"])
            if kind_ == "desc":
                offs.reverse()
            elif kind_ == "interior":
                mid = offs[1:-1]; rng.shuffle(mid); offs = [offs[0]] + mid + [offs[-1]]
            elif kind_ == "repeat-gap":
                j_ = rng.randint(1, m_ - 2); offs[j_] = offs[j_ - 1]
            elif kind_ == "shuffle":
                rng.shuffle(offs)
            ck.check(f"sdmx:list:{NAMES[f]}", "periods_from_sdmx_strings(xs)[i] != from_sdmx_string(xs[i])", {"p": P, "offsets": offs},
                     f"p = {P}\nps = [p + k for k in {offs}]\nxs = [q.to_sdmx_string() for q in ps]\n"
                     "got = ir.periods_from_sdmx_strings(xs)\nassert tuple(got) == tuple(ps), (xs, got)\n"
                     "got2 = ir.periods_from_sdmx_strings(xs, frequency=p.frequency)\nassert tuple(got2) == tuple(ps), (xs, got2)")
        nm = NAMES[f]
        pre = f"p = {P}\n"
        ck.check(f"sdmx:roundtrip:{nm}", "from_sdmx_string(to_sdmx_string(p), frequency) != p", {"p": P},
                 pre + "x = p.to_sdmx_string()\nassert ir.Period.from_sdmx_string(x, frequency=p.frequency) == p, x")
        ck.check(f"sdmx:autodetect:{nm}", "the frequency of an SDMX string the library produced is not detected", {"p": P},
                 pre + "x = p.to_sdmx_string()\nassert ir.Frequency.from_sdmx_string(x) == p.frequency, x\n"
                       "q = ir.Period.from_sdmx_string(x)\nassert type(q) is type(p) and q == p\n"
                       "assert ir.periods_from_sdmx_strings([x, x]) == (p, p)")
        ck.check(f"repr:roundtrip:{nm}", "eval(repr(p)) != p", {"p": P},
                 pre + NS + "q = eval(repr(p), ns)\nassert type(q) is type(p) and q == p, repr(p)")
        if f == 0:
            continue
        ck.check(f"year_segment:roundtrip:{nm}", "from_year_segment(to_year_segment(p)) != p", {"p": P},
                 pre + "q = ir.Period.from_year_segment(p.frequency, *p.to_year_segment())\nassert type(q) is type(p) and q == p")
        for pos in POS:
            pp = pre + f"pos = {pos!r}\n"
            ck.check(f"iso:roundtrip:{nm}", "from_iso_string(to_iso_string(p)) != p", {"p": P, "position": pos},
                     pp + "x = p.to_iso_string(position=pos)\nassert ir.Period.from_iso_string(x, frequency=p.frequency) == p, x")
            ck.check(f"ymd:roundtrip:{nm}", "from_ymd(to_ymd(p)) != p", {"p": P, "position": pos},
                     pp + "assert ir.Period.from_ymd(p.frequency, *p.to_ymd(position=pos)) == p")
            ck.check(f"pydate:roundtrip:{nm}", "from_python_date(to_python_date(p)) != p", {"p": P, "position": pos},
                     pp + "t = p.to_python_date(position=pos)\nassert ir.Period.from_python_date(t, frequency=p.frequency) == p\n"
                          "assert (t.year, t.month, t.day) == p.to_ymd(position=pos)")
            g = rng.choice([1, 2, 4, 12, 365])
            q = d9.shifted_spec(rng, s, rng.randint(0, 40))
            ck.check(f"refrequent:contains:{nm}->{NAMES[g]}", "the converted period does not contain the chosen day",
                     {"p": P, "position": pos, "target": NAMES[g]},
                     pp + f"g = ir.Frequency({g})\nr = p.refrequent(g, position=pos)\nt = p.to_python_date(position=pos)\n"
                          "assert r.frequency == g and r.to_python_date(position='start') <= t <= r.to_python_date(position='end')\n"
                          "assert ir.refrequent(p, g, position=pos) == r")
            ck.check(f"refrequent:monotone:{nm}->{NAMES[g]}", "frequency conversion is not monotone",
                     {"p": P, "q": py_spec(q), "position": pos, "target": NAMES[g]},
                     pp + f"q = {py_spec(q)}; g = ir.Frequency({g})\nassert p <= q and p.refrequent(g, position=pos) <= q.refrequent(g, position=pos)")
            if g > f or (g == 365 and f != 365):
                pos2 = rng.choice(POS)
                ck.check(f"refrequent:coarse_fine_coarse:{nm}->{NAMES[g]}", "coarse -> fine -> coarse leaves the original period",
                         {"p": P, "position": pos, "position_back": pos2, "fine": NAMES[g]},
                         pp + f"g = ir.Frequency({g})\nassert p.refrequent(g, position=pos).refrequent(p.frequency, position={pos2!r}) == p")
    ext.falsify_sheets(ctx, ck)
    ext.falsify_numpy(ctx, ck, NAMES)
    seen = {}
    for f_ in ck.fails:
        seen.setdefault(f_.key, f_)
    return list(seen.values()), {"checks": ck.count}


replay = d9.replay
