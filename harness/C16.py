"""C16  Block decomposition of an incidence matrix is a valid sequential ordering."""
from __future__ import annotations

import itertools
import re

import numpy as np

from vf import core
from vf.core import CorrResult, Disagreement, Failure, coq_bool, coq_list
from translator import blazer as tr

ID = "C16"
PROPS = "props/C16.v"
GENERATED = [tr.OUT]
CASE_DEPS = ["model/Blazer.vo"]
ALLOWED_AXIOMS: set = set()          # every theorem of props/C16.v is closed under the global context
TRUSTED = [
    "translator/blazer.py (constants and code shapes of incidences/blazer.py, Sequential.sequentialize, "
    "Invariant.reorder_equations -> gen/BlazerGen.v)",
    "numpy.argsort is a black box: the permutations it returns are recorded per call (wrapped from the harness "
    "process) and passed to the model as the oracle; theorems hold for every oracle that returns permutations",
    "the algorithms are hand-modelled on id lists over a fixed incidence relation (model/Blazer.v) and tied to the "
    "code by exact correspondence (blocks, eids/qids_first/last/inner, im_inner, number of argsort calls)",
]
ASSUMPTIONS = [
    "row/column ids are pairwise distinct (they are equation/quantity ids); the matrix is square with a perfect "
    "matching for the block theorems",
    "Sequential theorems: every equation has its own LHS name (distinct LHS names, so the incidence matrix is "
    "square with a full diagonal); an equation's own LHS variable occurring at zero shift on its RHS cannot be "
    "told from the LHS occurrence in the incidence matrix and is not counted as a use",
    "'leaves the model untouched' is an imperative fact: the translator checks that reorder_equations validates "
    "before assigning, and the harness compares the model's observable state before and after the raise",
]
MANIFEST = {
    "technique": "Coq proof (lists, permutations, induction over the recursion with fuel proved sufficient) of an executable "
                 "model of blazer.py with numpy.argsort as an oracle; exact correspondence, exhaustive on small matrices",
    "level_text": "Theorems (props/C16.v), for every size: for every square boolean matrix with a perfect matching, every "
                  "labelling by distinct ids and EVERY oracle returning permutations (sorting or not), blaze returns blocks "
                  "that partition eids and qids, are square, block-lower-triangular (an equation of a block involves only "
                  "quantities of that block and earlier blocks) and each has a perfect matching; the prefetch recursion's fuel "
                  "is proved sufficient.  For a Sequential model with distinct LHS names: sequentialize returns an order that "
                  "is a permutation and causal, finds one whenever one exists (complete), raises exactly when none exists and then "
                  "leaves the model unchanged; is_sequential is True exactly when the current order is causal; proved for both "
                  "values of the generated flag 'sequentialize_strictly raises'.",
    "level_note": "Trusted: Coq kernel + vm_compute; translator/blazer.py; harness (argsort recording, generators, comparison). "
                  "No axioms. Modelled not verified: numpy indexing/delete/sum semantics (tied by exhaustive correspondence "
                  "on all matrices up to 3x3 / 4x4 and random 5..40), Python object mutation order (checked by translator + harness).",
}


def translate(ctx):
    tr.run()


# ------------------------------------------------------------------ implementation side

class ArgsortRecorder:
    """Records every numpy.argsort call (key, returned permutation) while active; never changes a result."""

    def __init__(self):
        self.calls = []
        self._orig = None

    def __enter__(self):
        self._orig = np.argsort
        rec = self

        def wrapped(a, *args, **kw):
            out = rec._orig(a, *args, **kw)
            try:
                rec.calls.append(([int(x) for x in np.asarray(a).ravel().tolist()], [int(x) for x in out.tolist()]))
            except Exception:  # noqa
                rec.calls.append((None, None))
            return out

        np.argsort = wrapped
        return self

    def __exit__(self, *exc):
        np.argsort = self._orig
        return False


def run_blaze(im, eids, qids) -> dict:
    """blazer.blaze on a boolean matrix given as list of rows."""
    from irispie.incidences import blazer as bz
    n = len(im)
    m = len(im[0]) if n else len(qids)
    arr = np.array(im, dtype=bool).reshape(n, m)
    with ArgsortRecorder() as rec:
        try:
            blocks, info = bz.blaze(arr, tuple(eids), tuple(qids), return_info=True)
            out = {
                "blocks": [[list(map(int, b.eids)), list(map(int, b.qids))] for b in blocks],
                "info": [[int(x) for x in info[k]] for k in
                         ("eids_first", "qids_first", "eids_last", "qids_last", "eids_inner", "qids_inner")],
                "im_inner": np.asarray(info["im_inner"]).astype(bool).tolist(),
            }
        except Exception as e:  # noqa
            out = {"raises": f"{type(e).__name__}: {e}"[:160]}
    out["calls"] = rec.calls
    return out


# ------------------------------------------------------------------ generators

def rand_labels(rng, n, hi=None):
    hi = hi or (2 * n + 12)
    return rng.sample(range(hi), n)


def _perm(rng, n):
    p = list(range(n))
    rng.shuffle(p)
    return p


def gen_matrix(rng, n, kind):
    """A boolean n x n matrix of the given kind (all kinds but 'free' contain a perfect matching)."""
    im = [[False] * n for _ in range(n)]
    if kind == "triangular":
        d = rng.choice([0.05, 0.15, 0.4])
        for i in range(n):
            im[i][i] = True
            for j in range(i):
                im[i][j] = rng.random() < d
    elif kind == "block":
        i = 0
        d_low = rng.choice([0.0, 0.05, 0.2])
        while i < n:
            b = min(n - i, rng.choice([1, 1, 2, 2, 3, 4, 6]))
            p = _perm(rng, b)
            dd = rng.choice([0.3, 0.6, 1.0])
            for a in range(b):
                im[i + a][i + p[a]] = True
                for c in range(b):
                    if rng.random() < dd:
                        im[i + a][i + c] = True
                for c in range(i):
                    if rng.random() < d_low:
                        im[i + a][c] = True
            i += b
    elif kind in ("dense", "sparse"):
        d = rng.choice([0.5, 0.8]) if kind == "dense" else rng.choice([0.02, 0.06, 0.12])
        p = _perm(rng, n)
        for i in range(n):
            im[i][p[i]] = True
            for j in range(n):
                if rng.random() < d:
                    im[i][j] = True
    elif kind == "free":
        d = rng.choice([0.1, 0.3, 0.6])
        for i in range(n):
            for j in range(n):
                im[i][j] = rng.random() < d
    else:
        raise ValueError(kind)
    if kind != "free":
        pr, pc = _perm(rng, n), _perm(rng, n)
        if rng.random() < 0.2:
            pr = list(range(n))
        if rng.random() < 0.2:
            pc = list(range(n))
        im = [[im[pr[i]][pc[j]] for j in range(n)] for i in range(n)]
    return im


def all_matrices(n):
    for bits in itertools.product([False, True], repeat=n * n):
        yield [list(bits[i * n:(i + 1) * n]) for i in range(n)]


def has_perfect_matching(im) -> bool:
    n = len(im)
    if any(len(r) != n for r in im):
        return False
    match = [-1] * n

    def aug(i, seen):
        for j in range(n):
            if im[i][j] and not seen[j]:
                seen[j] = True
                if match[j] < 0 or aug(match[j], seen):
                    match[j] = i
                    return True
        return False

    return all(aug(i, [False] * n) for i in range(n))


# ------------------------------------------------------------------ Coq rendering
# Elaborating long list literals dominates the cost of a case file: every list of small numbers is written as one
# number (base-256 digits, least significant first; matrix rows as bit masks) and unpacked by model/Blazer.v (U, R).

def c_nats(xs) -> str:
    xs = [int(x) for x in xs]
    if any(x < 0 or x > 255 for x in xs):
        raise ValueError(f"value outside 0..255 in {xs[:10]}")
    v = 0
    for x in reversed(xs):
        v = v * 256 + x
    return f"(U {len(xs)} {v})"


def c_row(r) -> str:
    v = 0
    for x in reversed(r):
        v = v * 2 + (1 if x else 0)
    return f"(R {len(r)} {v})"


def c_bmat(im) -> str:
    return "[" + ";".join(c_row(r) for r in im) + "]"


def _periodic(idx):
    """(prefix, cycle) with idx == (prefix + cycle * k)[:len(idx)], cycle as short as possible."""
    n = len(idx)
    for total in range(1, n + 1):                 # shortest prefix + cycle first
        for per in range(1, total + 1):
            pre = total - per
            if all(idx[k] == idx[k - per] for k in range(pre + per, n)):
                return idx[:pre], idx[pre:pre + per]
    return idx, []


def c_table(calls) -> str:
    """The recorded calls without repetition: distinct (key, perm) pairs and, for each call, its pair."""
    distinct, idx = {}, []
    for k, p in calls:
        key = (tuple(k), tuple(p))
        if key not in distinct:
            distinct[key] = len(distinct)
        idx.append(distinct[key])
    pre, cy = _periodic(idx)
    return ("[" + ";".join(f"({c_nats(k)},{c_nats(p)})" for k, p in distinct) + "] "
            + f"(cyc {c_nats(pre)} {c_nats(cy)} {len(idx)})")


def c_expected_blaze(out) -> str:
    if "raises" in out:
        return "None"
    bl = out["blocks"]
    i = out["info"]
    flat_im = [x for r in out["im_inner"] for x in r]
    parts = [c_nats([len(e) for e, _ in bl]), c_nats([len(q) for _, q in bl]),
             c_nats([x for e, _ in bl for x in e]), c_nats([x for _, q in bl for x in q])]
    parts += [c_nats(i[k]) for k in range(6)]
    parts += [c_row(flat_im), f"(N.to_nat {len(out['calls'])})"]
    return "Some (mkFlat " + " ".join(parts) + ")"


HEADER = """From Coq Require Import List Arith Bool NArith.
From Verif Require Import gen.BlazerGen model.Blazer.
Import ListNotations.
Open Scope N_scope.
Set Printing Width 1000000.
Set Printing Depth 1000000.
"""


CHUNK = 16     # Coq elaborates a list literal in time quadratic in its length: keep the lists short


def _chunked(ty, items, eqb) -> str:
    lines = [HEADER]
    names = []
    for k in range(0, len(items), CHUNK):
        nm = f"ch{k // CHUNK}"
        names.append(nm)
        lines.append(f"Definition {nm} : list ({ty}) := [\n" + ";\n".join(items[k:k + CHUNK]) + "\n].")
    groups = []
    for k in range(0, len(names), CHUNK):
        gn = f"g{k // CHUNK}"
        groups.append(gn)
        lines.append(f"Definition {gn} : list ({ty}) := " + " ++ ".join(names[k:k + CHUNK]) + ".")
    lines.append(f"Eval vm_compute in (failing_ {eqb} ({' ++ '.join(groups) if groups else '[]'}) 0%nat).")
    return "\n".join(lines) + "\n"


def blaze_shard(cases, outs) -> str:
    items = []
    for c, o in zip(cases, outs):
        items.append(f"  (blaze_case {c_table(o['calls'])} {c_bmat(c['im'])} {c_nats(c['eids'])} {c_nats(c['qids'])},\n"
                     f"   {c_expected_blaze(o)})")
    return _chunked("option blaze_flat * option blaze_flat", items, "opt_flat_eqb")


class Batch:
    """All case files of a run are compiled in ONE parallel batch (a coqc start is the dominant cost)."""

    def __init__(self):
        self.items = []     # (tag, shard, text, describe)

    def add(self, tag, shards, texts, describe):
        for sh, tx in zip(shards, texts):
            self.items.append((tag, sh, tx, describe))

    def run(self, ctx, res: CorrResult):
        results = core.run_cases(ctx, [it[2] for it in self.items], prefix="c16", timeout=ctx.scale(900, 3000))
        res.shards += len(self.items)
        for k, ((tag, (cs, os_), _, describe), (ok, out)) in enumerate(zip(self.items, results)):
            if not ok:
                res.disagreements.append(Disagreement(f"{tag} shard {k} does not evaluate", None, out[-600:], None))
                continue
            bodies = core.parse_eval_lists(out)
            if len(bodies) != 1:
                res.disagreements.append(Disagreement(f"{tag} shard {k}: unparsable output", None, out[-600:], None))
                continue
            for i in core.parse_nat_list(bodies[0]):
                res.disagreements.append(Disagreement(f"{tag}:{describe(cs[i])}", cs[i], "model result differs",
                                                      {k_: v for k_, v in os_[i].items() if k_ != "calls"}))


# ------------------------------------------------------------------ Sequential models through real sources

def gen_seq_model(rng, n=None, kind=None) -> dict:
    """A Sequential model: equation i has LHS x<i> and uses, at zero shift, the LHS variables deps[i]
    (never itself); lags/leads of arbitrary variables and an exogenous z are added and must be ignored."""
    n = n or rng.randint(1, 9)
    kind = kind or rng.choice(["dag", "dag", "dag", "sequential", "cycle", "random"])
    order = _perm(rng, n)            # order[p] = equation placed at p in a causal order (dag kinds)
    pos = {e: p for p, e in enumerate(order)}
    d = rng.choice([0.15, 0.3, 0.6])
    deps = [[] for _ in range(n)]
    if kind == "sequential":
        for i in range(n):
            deps[i] = [j for j in range(i) if rng.random() < d]
    elif kind == "dag":
        for i in range(n):
            deps[i] = [j for j in range(n) if pos[j] < pos[i] and rng.random() < d]
    elif kind == "cycle":
        for i in range(n):
            deps[i] = [j for j in range(n) if pos[j] < pos[i] and rng.random() < d]
        if n >= 2:
            k = rng.randint(2, min(n, 4))
            cyc = rng.sample(range(n), k)
            for a, b in zip(cyc, cyc[1:] + cyc[:1]):
                if b not in deps[a]:
                    deps[a].append(b)
    else:
        for i in range(n):
            deps[i] = [j for j in range(n) if j != i and rng.random() < d * 0.6]
    for i in range(n):
        rng.shuffle(deps[i])
    shifted = [[(rng.randrange(n), rng.choice([-2, -1, -1, 1])) for _ in range(rng.randint(0, 2))] for _ in range(n)]
    lhs_form = [rng.choice(["plain", "plain", "plain", "log", "diff"]) for _ in range(n)]
    return {"n": n, "kind": kind, "deps": deps, "shifted": shifted, "lhs_form": lhs_form}


def seq_source(case) -> str:
    lines = ["!equations"]
    for i in range(case["n"]):
        terms = [f"0.{(3 * i + 1) % 9 + 1}*x{j}" for j in case["deps"][i]]
        terms += [f"0.1*x{j}{{{s:+d}}}" for j, s in case["shifted"][i]]
        terms += ["z", f"{i + 1}"]
        lhs = {"plain": f"x{i}", "log": f"log(x{i})", "diff": f"diff(x{i})"}[case["lhs_form"][i]]
        lines.append(f"  {lhs} = " + " + ".join(terms) + ";")
    return "\n".join(lines) + "\n"


_LHS_RE = re.compile(r"x(\d+)")


def _seq_state(m) -> dict:
    return {"humans": [e.human for e in m.equations], "lhs_names": list(m.lhs_names),
            "im": np.asarray(m.incidence_matrix).astype(int).tolist()}


def run_sequentialize(case) -> dict:
    import irispie as ir
    m = ir.Sequential.from_string(seq_source(case))
    before = _seq_state(m)
    out = {"before": before, "is_sequential_before": bool(m.is_sequential)}
    try:
        r = m.sequentialize()
        out["ok"] = [int(x) for x in r]
    except Exception as e:  # noqa
        out["err"] = type(e).__name__
        out["exc"] = f"{type(e).__name__}: {e}"[:160]
    after = _seq_state(m)
    out["after"] = after
    out["final"] = [int(_LHS_RE.search(h).group(1)) for h in after["humans"]]
    out["is_sequential_after"] = bool(m.is_sequential)
    return out


ERR_CODES = {"IrisPieError": 1, "ValueError": 2}


def c_eqn(i, case) -> str:
    occ = [i] + list(case["deps"][i])
    v = 0
    for x in reversed(occ):
        v = v * 256 + x
    return f"(mkE {i} {len(occ)} {v})"


def c_seq_model(case, order=None) -> str:
    order = range(case["n"]) if order is None else order
    return "[" + ";".join(c_eqn(i, case) for i in order) + "]"


def c_expected_seq(case, out) -> str:
    res = ("okN" + c_nats(out["ok"])[2:-1]) if "ok" in out else f"errN {ERR_CODES.get(out['err'], 99)}"
    return f"({res}, {c_seq_model(case, out['final'])})"


def seq_shard(cases, outs) -> str:
    items = [f"  (sequentialize {c_seq_model(c)},\n   {c_expected_seq(c, o)})" for c, o in zip(cases, outs)]
    return _chunked("(seq_result * list eqn) * (seq_result * list eqn)", items, "seq_eqb")


# ------------------------------------------------------------------ Simultaneous.split_into_blocks / steady through real sources

def gen_sim_model(rng, n=None, kind=None) -> dict:
    n = n or rng.randint(2, 12)
    kind = kind or rng.choice(["triangular", "block", "dense", "sparse"])
    im = gen_matrix(rng, n, kind)
    shifts = [[rng.choice([0, 0, 0, -1, 1, -2]) for _ in range(n)] for _ in range(n)]
    extra = [[rng.random() < 0.25 for _ in range(n)] for _ in range(n)]     # the same variable at a second shift
    coef = [[rng.choice([1, 2, 3, 4, 5, 6, 7]) / 4 for _ in range(n)] for _ in range(n)]
    return {"n": n, "kind": kind, "im": im, "shifts": shifts, "extra": extra, "coef": coef}


def sim_source(case) -> str:
    n = case["n"]
    lines = ["!transition-variables", "  " + ", ".join(f"v{j}" for j in range(n)), "!transition-equations"]
    for i in range(n):
        terms = []
        for j in range(n):
            if case["im"][i][j]:
                s = case["shifts"][i][j]
                terms.append(f"{case['coef'][i][j]}*v{j}" + (f"{{{s:+d}}}" if s else ""))
                if case["extra"][i][j]:
                    terms.append(f"0.125*v{j}{{{(s - 1):+d}}}")
        lines.append("  " + " + ".join(terms) + f" = {100 + i};")
    return "\n".join(lines) + "\n"


_EQ_RE = re.compile(r"=(\d+)$")
_VAR_RE = re.compile(r"^v(\d+)$")


class BlazeRecorder:
    """Wraps incidences.blazer.blaze from outside: records (im, eids, qids), the argsort calls made inside and
    the full result (return_info=True); the caller still receives exactly what it asked for."""

    def __init__(self):
        self.records = []

    def __enter__(self):
        from irispie.incidences import blazer as bz
        self._bz = bz
        self._orig = bz.blaze
        rec = self

        def wrapped(im, eids=None, qids=None, return_info=False):
            entry = {"im": np.asarray(im).astype(bool).tolist(), "eids": [int(x) for x in eids],
                     "qids": [int(x) for x in qids]}
            with ArgsortRecorder() as ar:
                try:
                    blocks, info = rec._orig(im, eids, qids, return_info=True)
                except Exception as e:  # noqa
                    entry["out"] = {"raises": f"{type(e).__name__}: {e}"[:160], "calls": ar.calls}
                    rec.records.append(entry)
                    raise
            entry["out"] = {
                "blocks": [[list(map(int, b.eids)), list(map(int, b.qids))] for b in blocks],
                "info": [[int(x) for x in info[k]] for k in
                         ("eids_first", "qids_first", "eids_last", "qids_last", "eids_inner", "qids_inner")],
                "im_inner": np.asarray(info["im_inner"]).astype(bool).tolist(),
                "calls": ar.calls,
            }
            rec.records.append(entry)
            return (blocks, info) if return_info else blocks

        bz.blaze = wrapped
        return self

    def __exit__(self, *exc):
        self._bz.blaze = self._orig
        return False


def run_split(case, also_steady=False) -> dict:
    """Simultaneous.split_into_blocks (and optionally steady(split_into_blocks=True)) on the generated source."""
    import contextlib
    import io
    import irispie as ir
    out = {}
    m = ir.Simultaneous.from_string(sim_source(case))
    with BlazeRecorder() as rec:
        try:
            hb = m.split_into_blocks(None)
            out["human"] = [[list(b.equations), list(b.quantities)] for b in hb]
        except Exception as e:  # noqa
            out["raises"] = f"{type(e).__name__}: {e}"[:160]
        if also_steady:
            try:
                with contextlib.redirect_stdout(io.StringIO()), contextlib.redirect_stderr(io.StringIO()):
                    m.steady(split_into_blocks=True)
                out["steady"] = "ok"
            except Exception as e:  # noqa
                out["steady"] = f"{type(e).__name__}"
    out["records"] = rec.records
    return out


def human_to_indices(hblocks):
    """[(equation indices, variable indices)] of human blocks produced from sim_source."""
    res = []
    for eqs, qs in hblocks:
        res.append(([int(_EQ_RE.search(h).group(1)) - 100 for h in eqs], [int(_VAR_RE.match(q).group(1)) for q in qs]))
    return res


def glue_check(case, out):
    """The incidence matrix handed to blaze is the structure of the source, and the human blocks are the blocks.
    Returns a description of the first inconsistency or None."""
    if "human" not in out or not out["records"]:
        return "split_into_blocks raised or did not call blaze: " + str(out.get("raises"))
    r = out["records"][0]
    if "blocks" not in r["out"]:
        return "blaze raised: " + r["out"].get("raises", "")
    hb = human_to_indices(out["human"])
    blocks = r["out"]["blocks"]
    if len(hb) != len(blocks):
        return "number of human blocks differs from number of blocks"
    e2i, q2j = {}, {}
    for (he, hq), (be, bq) in zip(hb, blocks):
        if len(he) != len(be) or len(hq) != len(bq):
            return "human block size differs from block size"
        e2i.update(dict(zip(be, he)))       # Block ids and human strings are both sorted by id
        q2j.update(dict(zip(bq, hq)))
    n = case["n"]
    if sorted(e2i) != sorted(r["eids"]) or sorted(q2j) != sorted(r["qids"]):
        return "blocks do not cover the ids passed to blaze"
    if len(r["im"]) != n or any(len(row) != n for row in r["im"]):
        return "incidence matrix is not n x n"
    for a, e in enumerate(r["eids"]):
        for b, q in enumerate(r["qids"]):
            if bool(r["im"][a][b]) != bool(case["im"][e2i[e]][q2j[q]]):
                return f"incidence matrix entry (eid {e}, qid {q}) differs from the source structure"
    for rr in out["records"][1:]:
        if (rr["im"], rr["eids"], rr["qids"]) != (r["im"], r["eids"], r["qids"]):
            return "steady(split_into_blocks=True) decomposes a different matrix than split_into_blocks"
    return None


# ------------------------------------------------------------------ correspondence

def _blaze_cases(ctx):
    rng = ctx.rng
    cases = []
    nmax = ctx.scale(3, 4)
    for n in range(0, nmax + 1):
        for im in all_matrices(n):
            cases.append({"im": im, "eids": rand_labels(rng, n), "qids": rand_labels(rng, n), "kind": f"all{n}x{n}"})
    nrand = ctx.scale(200, 8000)
    for k in range(nrand):
        r = rng.random()
        n = rng.randint(5, 12) if r < 0.5 else (rng.randint(13, 24) if r < 0.85 else rng.randint(25, 40))
        kind = rng.choice(["triangular", "block", "block", "dense", "sparse", "sparse", "free"])
        cases.append({"im": gen_matrix(rng, n, kind), "eids": rand_labels(rng, n), "qids": rand_labels(rng, n),
                      "kind": kind})
    return cases


def _shards(cases, outs, weight, budget):
    """Split into shards of roughly equal weight."""
    shards, cur_c, cur_o, w = [], [], [], 0
    for c, o in zip(cases, outs):
        cur_c.append(c); cur_o.append(o); w += weight(c)
        if w >= budget:
            shards.append((cur_c, cur_o)); cur_c, cur_o, w = [], [], 0
    if cur_c:
        shards.append((cur_c, cur_o))
    return shards


def correspondence(ctx) -> CorrResult:
    rng = ctx.rng
    res = CorrResult()
    batch = Batch()
    dist = {"blaze": {}, "blaze_sizes": {}, "blaze_raises": 0, "with_perfect_matching": 0, "inner_blocks_gt1": 0,
            "argsort_calls": 0, "sequentialize": {}, "split_into_blocks": {}, "steady_calls": 0}
    keyset = set()

    import time
    t0 = time.time()
    # 1. blazer.blaze, exhaustive small + random large, random labellings
    cases = _blaze_cases(ctx)
    outs = [run_blaze(c["im"], c["eids"], c["qids"]) for c in cases]
    ctx.log(f"blaze: {len(cases)} cases run on the implementation in {time.time() - t0:.1f}s")
    for c, o in zip(cases, outs):
        dist["blaze"][c["kind"]] = dist["blaze"].get(c["kind"], 0) + 1
        nb = f"n={len(c['im']) // 10 * 10}.." if len(c["im"]) >= 10 else f"n={len(c['im'])}"
        dist["blaze_sizes"][nb] = dist["blaze_sizes"].get(nb, 0) + 1
        dist["argsort_calls"] += len(o["calls"])
        if "raises" in o:
            dist["blaze_raises"] += 1
        else:
            if has_perfect_matching(c["im"]):
                dist["with_perfect_matching"] += 1
            if len(o["blocks"]) >= 2:
                keyset.add(("b", repr(c["im"])))
            if sum(1 for b in o["blocks"] if len(b[0]) > 1) >= 1:
                dist["inner_blocks_gt1"] += 1
    shards = _shards(cases, outs, lambda c: 30 + len(c["im"]) ** 2, ctx.scale(16000, 20000))
    batch.add("blaze", shards, [blaze_shard(c, o) for c, o in shards], lambda c: f"{c['kind']}:n={len(c['im'])}")
    res.evaluations += len(cases)
    res.samples.append({"blaze": {"im": cases[-1]["im"], "eids": cases[-1]["eids"], "qids": cases[-1]["qids"]},
                        "impl": {k: v for k, v in outs[-1].items() if k != "calls"},
                        "argsort_calls": len(outs[-1]["calls"])})

    # 2. Sequential.from_string(...).sequentialize()
    nseq = ctx.scale(200, 6000)
    scases = [gen_seq_model(rng) for _ in range(nseq)]
    souts = [run_sequentialize(c) for c in scases]
    for c, o in zip(scases, souts):
        tag = c["kind"] + (":ok" if "ok" in o else ":" + o["err"])
        dist["sequentialize"][tag] = dist["sequentialize"].get(tag, 0) + 1
        if "ok" in o and o["ok"] != list(range(c["n"])):
            keyset.add(("s", repr(c["deps"])))
        # the incidence matrix of the parsed model is the structure of the source (diagonal + zero-shift deps)
        want = [[1 if (j == i or j in c["deps"][i]) else 0 for j in range(c["n"])] for i in range(c["n"])]
        if o["before"]["im"] != want or o["before"]["lhs_names"] != [f"x{i}" for i in range(c["n"])]:
            res.disagreements.append(Disagreement("sequential:incidence_matrix", {"source": seq_source(c)},
                                                  want, o["before"]["im"]))
    sshards = _shards(scases, souts, lambda c: 1, ctx.scale(130, 300))
    batch.add("seq", sshards, [seq_shard(c, o) for c, o in sshards], lambda c: f"{c['kind']}:n={c['n']}")
    res.evaluations += nseq
    ctx.log(f"sequentialize: {nseq} models, {len(sshards)} shards, t={time.time() - t0:.1f}s")
    res.samples.append({"sequentialize": seq_source(scases[0]), "impl": {k: souts[0].get(k) for k in ("ok", "err", "final")}})

    # 3. Simultaneous.split_into_blocks / steady(split_into_blocks=True): the matrix handed to blaze, the blocks
    nsim = ctx.scale(40, 1000)
    mcases, mouts = [], []
    for k in range(nsim):
        c = gen_sim_model(rng)
        o = run_split(c, also_steady=(k % 6 == 0))
        msg = glue_check(c, o)
        dist["split_into_blocks"][c["kind"]] = dist["split_into_blocks"].get(c["kind"], 0) + 1
        dist["steady_calls"] += max(0, len(o["records"]) - 1)
        if msg:
            res.disagreements.append(Disagreement("split_into_blocks:glue", {"source": sim_source(c)}, msg,
                                                  o.get("human") or o.get("raises")))
        for r in o["records"]:
            mcases.append({"im": r["im"], "eids": r["eids"], "qids": r["qids"], "kind": "model:" + c["kind"],
                           "source": sim_source(c)})
            mouts.append(r["out"])
        if "human" in o and len(o["human"]) >= 2:
            keyset.add(("m", repr(c["im"])))
    mshards = _shards(mcases, mouts, lambda c: 30 + len(c["im"]) ** 2, 6000)
    batch.add("model", mshards, [blaze_shard(c, o) for c, o in mshards], lambda c: c["kind"])
    res.evaluations += nsim
    ctx.log(f"split_into_blocks: {nsim} models, {len(mcases)} blaze calls, {len(mshards)} shards, t={time.time() - t0:.1f}s")
    if mcases:
        res.samples.append({"split_into_blocks": mcases[0]["source"], "blocks": mouts[0].get("blocks")})

    batch.run(ctx, res)
    ctx.log(f"{res.shards} case files evaluated by Coq, t={time.time() - t0:.1f}s")
    res.distinct_nontrivial = len(keyset)
    res.distribution = dist
    res.rule = ("(1) blazer.blaze(im, eids, qids, return_info=True) on EVERY boolean matrix up to 3x3 (quick) / 4x4 (thorough), "
                "with or without a perfect matching, and on random 5..40 triangular/block/dense/sparse/free matrices (rows and "
                "columns permuted), each with a random labelling by distinct ids; the recorded numpy.argsort calls are the oracle; "
                "compared exactly: blocks, eids/qids first/last/inner, im_inner, number of argsort calls, raising. "
                "(2) Sequential.from_string(src).sequentialize() on generated sources (DAG, already sequential, cyclic, random "
                "zero-shift dependencies; lags/leads and log/diff LHS that must be ignored): result or error class and the "
                "equation order afterwards. (3) Simultaneous.from_string(src).split_into_blocks(None) (every sixth also "
                "steady(split_into_blocks=True)): the matrix and ids handed to blaze equal the structure of the source, the "
                "human blocks are the blocks, and blaze agrees with the model on that call. "
                "non-trivial = at least two blocks / a genuinely reordered model; distinct = distinct structure")
    return res


# ------------------------------------------------------------------ falsifier: the property on the public API

def check_blocks(im, eids, qids, blocks, where):
    """The property of the block decomposition, stated directly.  blocks = [(eids, qids)]."""
    fails = []
    inp = {"im": [[int(x) for x in r] for r in im], "eids": list(eids), "qids": list(qids)}
    obs = [[list(b[0]), list(b[1])] for b in blocks]
    be = [e for b in blocks for e in b[0]]
    bq = [q for b in blocks for q in b[1]]
    repro = "irispie.incidences.blazer.blaze(numpy.array(im, dtype=bool), eids, qids)"
    if sorted(be) != sorted(eids) or sorted(bq) != sorted(qids):
        fails.append(Failure(f"{where}:partition", "the blocks do not contain every equation and every quantity exactly once",
                             inp, obs, "a partition of eids and of qids", repro))
        return fails
    if any(len(b[0]) != len(b[1]) for b in blocks):
        fails.append(Failure(f"{where}:square", "a block is not square", inp, obs, "square blocks", repro))
        return fails
    row = {e: i for i, e in enumerate(eids)}
    col = {q: j for j, q in enumerate(qids)}
    seen = set()
    for k, (es, qs) in enumerate(blocks):
        seen |= set(qs)
        for e in es:
            for q in qids:
                if im[row[e]][col[q]] and q not in seen:
                    fails.append(Failure(f"{where}:triangular",
                                         f"equation {e} of block {k} involves quantity {q} of a later block",
                                         inp, obs, "block lower triangular", repro))
                    return fails
        sub = [[im[row[e]][col[q]] for q in qs] for e in es]
        if not has_perfect_matching(sub):
            fails.append(Failure(f"{where}:singular-block", f"diagonal block {k} has no perfect matching",
                                 inp, obs, "structurally non-singular blocks", repro))
            return fails
    return fails


def falsify_blaze_case(im, eids, qids):
    if not has_perfect_matching(im):
        return []
    o = run_blaze(im, eids, qids)
    if "raises" in o:
        return [Failure("blaze:raises", "blaze raises on a square matrix with a perfect matching",
                        {"im": [[int(x) for x in r] for r in im], "eids": list(eids), "qids": list(qids)},
                        o["raises"], "a block decomposition")]
    return check_blocks(im, eids, qids, o["blocks"], "blaze")


def falsify_split_case(case):
    out = run_split(case, also_steady=False)
    src = sim_source(case)
    if "human" not in out:
        return [Failure("split_into_blocks:raises", "split_into_blocks raises on a model whose incidence matrix has a perfect matching",
                        {"source": src, "case": case}, out.get("raises"), "blocks",
                        "irispie.Simultaneous.from_string(source).split_into_blocks(None)")]
    try:
        hb = human_to_indices(out["human"])
    except Exception as e:  # noqa
        return [Failure("split_into_blocks:unreadable", f"cannot read the human blocks: {e}", {"source": src, "case": case},
                        out["human"])]
    n = case["n"]
    fs = check_blocks(case["im"], list(range(n)), list(range(n)), hb, "split_into_blocks")
    for f in fs:
        f.input = {"source": src, "case": case}
        f.repro = "irispie.Simultaneous.from_string(source).split_into_blocks(None)"
    return fs


def has_causal_order(case) -> bool:
    n = case["n"]
    deps = [set(d) for d in case["deps"]]
    done, progress = set(), True
    while progress:
        progress = False
        for i in range(n):
            if i not in done and deps[i] <= done:
                done.add(i); progress = True
    return len(done) == n


def falsify_seq_case(case):
    o = run_sequentialize(case)
    src = seq_source(case)
    inp = {"source": src, "case": case}
    repro = "m = irispie.Sequential.from_string(source); m.sequentialize()"
    n = case["n"]
    identity_causal = all(j < i for i in range(n) for j in case["deps"][i])
    if o["is_sequential_before"] != identity_causal:
        return [Failure("is_sequential:wrong", "is_sequential does not say whether the current equation order is causal",
                        inp, o["is_sequential_before"], identity_causal,
                        "irispie.Sequential.from_string(source).is_sequential")]
    if "ok" in o and not o["is_sequential_after"]:
        return [Failure("is_sequential:false-after-sequentialize", "is_sequential is False after a successful sequentialize",
                        inp, False, True, repro + "; m.is_sequential")]
    if "ok" in o:
        order = o["ok"]
        if sorted(order) != list(range(n)):
            return [Failure("sequentialize:not-a-permutation", "the returned order is not a permutation of the equations",
                            inp, order, "a permutation", repro)]
        if o["final"] != order:
            return [Failure("sequentialize:model-order-differs", "the model's equations are not in the returned order",
                            inp, {"returned": order, "model": o["final"]}, "model reordered as returned", repro)]
        determined = set()
        for i in order:
            missing = [j for j in case["deps"][i] if j not in determined]
            if missing:
                return [Failure("sequentialize:non-causal",
                                f"equation x{i} uses x{missing[0]} at zero shift before any earlier equation determines it",
                                inp, order, "a causal order", repro)]
            determined.add(i)
        return []
    if o["before"] != o["after"]:
        return [Failure("sequentialize:mutated-on-failure", "sequentialize raised but the model changed",
                        inp, {"before": o["before"], "after": o["after"], "error": o["exc"]}, "model untouched", repro)]
    if has_causal_order(case):
        return [Failure("sequentialize:raises-although-order-exists", "sequentialize raises although a sequential order exists",
                        inp, o["exc"], "an order", repro)]
    return []


def falsify(ctx, hints):
    import time
    t0 = time.time()
    rng = ctx.rng
    fails: list[Failure] = []
    info = {"blaze_checks": 0, "split_checks": 0, "sequentialize_checks": 0, "from_disagreements": 0}
    # start from the inputs on which model and implementation disagree
    for d in (hints or {}).get("disagreements", []):
        inp = d.get("input")
        if isinstance(inp, dict) and "im" in inp and "eids" in inp:
            info["from_disagreements"] += 1
            fails += falsify_blaze_case(inp["im"], inp["eids"], inp["qids"])
        elif isinstance(inp, dict) and "deps" in inp:
            info["from_disagreements"] += 1
            fails += falsify_seq_case(inp)
        elif isinstance(inp, dict) and "coef" in inp:
            info["from_disagreements"] += 1
            fails += falsify_split_case(inp)
    # exhaustive small matrices
    for n in range(0, ctx.scale(3, 4) + 1):
        for im in all_matrices(n):
            if has_perfect_matching(im):
                info["blaze_checks"] += 1
                fails += falsify_blaze_case(im, rand_labels(rng, n), rand_labels(rng, n))
        if len(fails) > 20:
            break
    # every 4x4 matrix that cannot be peeled (each row and each column has at least two incidences) and has a perfect
    # matching: the smallest cores on which the inner triangularisation needs several sweeps (the quick tier's exhaustive
    # scope is 3x3, on which every defect of the inner heuristic is invisible)
    if not ctx.thorough:
        for im in all_matrices(4):
            if all(sum(r) >= 2 for r in im) and all(sum(r[j] for r in im) >= 2 for j in range(4)) and has_perfect_matching(im):
                info["blaze_checks"] += 1
                info["cores_4x4"] = info.get("cores_4x4", 0) + 1
                fails += falsify_blaze_case(im, rand_labels(rng, 4), rand_labels(rng, 4))
                if len(fails) > 20:
                    break
    # random unpeelable cores of size 5..9 (two chained simultaneous blocks with moderately sparse interiors, rows and columns
    # permuted, every row and column with at least two incidences)
    for _ in range(ctx.scale(400, 6000)):
        n = rng.randint(5, 9)
        b1 = rng.randint(2, n - 2)
        im = [[False] * n for _ in range(n)]
        for lo, hi in ((0, b1), (b1, n)):
            m_ = hi - lo
            p_ = _perm(rng, m_); q_ = _perm(rng, m_)
            for a in range(m_):
                im[lo + a][lo + p_[a]] = True
                im[lo + a][lo + p_[(a + 1) % m_]] = True        # a cycle through the block: every row/column >= 2
                for c in range(m_):
                    if rng.random() < 0.25:
                        im[lo + a][lo + c] = True
        for a in range(b1, n):
            for c in range(b1):
                if rng.random() < 0.3:
                    im[a][c] = True
        rp = _perm(rng, n); cp = _perm(rng, n)
        im = [[im[rp[i]][cp[j]] for j in range(n)] for i in range(n)]
        info["blaze_checks"] += 1
        info["random_cores"] = info.get("random_cores", 0) + 1
        fails += falsify_blaze_case(im, rand_labels(rng, n), rand_labels(rng, n))
        if len(fails) > 20:
            break
    for _ in range(ctx.scale(300, 8000)):
        n = rng.randint(4, 30)
        im = gen_matrix(rng, n, rng.choice(["triangular", "block", "block", "dense", "sparse", "sparse"]))
        info["blaze_checks"] += 1
        fails += falsify_blaze_case(im, rand_labels(rng, n), rand_labels(rng, n))
        if len(fails) > 20:
            break
    for _ in range(ctx.scale(40, 800)):
        info["split_checks"] += 1
        fails += falsify_split_case(gen_sim_model(rng))
        if len(fails) > 20:
            break
    for _ in range(ctx.scale(250, 6000)):
        info["sequentialize_checks"] += 1
        fails += falsify_seq_case(gen_seq_model(rng))
        if len(fails) > 20:
            break
    import json
    fails.sort(key=lambda f: len(json.dumps(f.input, default=str)))      # smallest failing input first
    seen, uniq = set(), []
    for f in fails:
        if f.key not in seen:
            seen.add(f.key); uniq.append(f)
    info["seconds"] = round(time.time() - t0, 1)
    ctx.log(f"falsifier: {info}")
    return uniq, info


def replay(ctx, failure: dict):
    key, inp = failure["key"], failure["input"]
    if key.startswith("blaze:"):
        fs = falsify_blaze_case(inp["im"], inp["eids"], inp["qids"])
    elif key.startswith("split_into_blocks:"):
        fs = falsify_split_case(inp["case"])
    else:
        fs = falsify_seq_case(inp["case"])
    return fs[0] if fs else None
