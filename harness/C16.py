"""C16  Block decomposition of an incidence matrix is a valid sequential ordering."""
from __future__ import annotations

import itertools
import re

import numpy as np

from vf import core
from vf.core import CorrResult, Disagreement, Failure, coq_bool, coq_list
from translator import blazer as tr

ID = "C16"
PROPS = "props/C16.v"
GENERATED = [tr.OUT]
CASE_DEPS = ["model/Blazer.vo"]
ALLOWED_AXIOMS: set = set()          # every theorem of props/C16.v is closed under the global context
TRUSTED = [
    "translator/blazer.py (constants and code shapes of incidences/blazer.py, Sequential.sequentialize, "
    "Invariant.reorder_equations -> gen/BlazerGen.v)",
    "numpy.argsort is a black box: the permutations it returns are recorded per call (wrapped from the harness "
    "process) and passed to the model as the oracle; theorems hold for every oracle that returns permutations",
    "the algorithms are hand-modelled on id lists over a fixed incidence relation (model/Blazer.v) and tied to the "
    "code by exact correspondence (blocks, eids/qids_first/last/inner, im_inner, number of argsort calls)",
]
ASSUMPTIONS = [
    "row/column ids are pairwise distinct (they are equation/quantity ids); the matrix is square with a perfect "
    "matching for the block theorems",
    "Sequential theorems: every equation has its own LHS name (distinct LHS names, so the incidence matrix is "
    "square with a full diagonal); an equation's own LHS variable occurring at zero shift on its RHS cannot be "
    "told from the LHS occurrence in the incidence matrix and is not counted as a use",
    "'leaves the model untouched' is an imperative fact: the translator checks that reorder_equations validates "
    "before assigning, and the harness compares the model's observable state before and after the raise",
]
MANIFEST = {
    "technique": "Coq proof (lists, permutations, induction over the recursion with fuel proved sufficient) of an executable "
                 "model of blazer.py with numpy.argsort as an oracle; exact correspondence, exhaustive on small matrices",
    "level_text": "Theorems (props/C16.v), for every size: for every square boolean matrix with a perfect matching, every "
                  "labelling by distinct ids and EVERY oracle returning permutations (sorting or not), blaze returns blocks "
                  "that partition eids and qids, are square, block-lower-triangular (an equation of a block involves only "
                  "quantities of that block and earlier blocks) and each has a perfect matching; the prefetch recursion's fuel "
                  "is proved sufficient.  For a Sequential model with distinct LHS names: sequentialize returns an order that "
                  "is a permutation and causal, finds one whenever one exists (complete), and otherwise fails with the model "
                  "unchanged; proved for both values of the generated flag 'sequentialize_strictly raises'.",
    "level_note": "Trusted: Coq kernel + vm_compute; translator/blazer.py; harness (argsort recording, generators, comparison). "
                  "No axioms. Modelled not verified: numpy indexing/delete/sum semantics (tied by exhaustive correspondence "
                  "on all matrices up to 3x3 / 4x4 and random 5..40), Python object mutation order (checked by translator + harness).",
}


def translate(ctx):
    tr.run()


# ------------------------------------------------------------------ implementation side

class ArgsortRecorder:
    """Records every numpy.argsort call (key, returned permutation) while active; never changes a result."""

    def __init__(self):
        self.calls = []
        self._orig = None

    def __enter__(self):
        self._orig = np.argsort
        rec = self

        def wrapped(a, *args, **kw):
            out = rec._orig(a, *args, **kw)
            try:
                rec.calls.append(([int(x) for x in np.asarray(a).ravel().tolist()], [int(x) for x in out.tolist()]))
            except Exception:  # noqa
                rec.calls.append((None, None))
            return out

        np.argsort = wrapped
        return self

    def __exit__(self, *exc):
        np.argsort = self._orig
        return False


def run_blaze(im, eids, qids) -> dict:
    """blazer.blaze on a boolean matrix given as list of rows."""
    from irispie.incidences import blazer as bz
    n = len(im)
    m = len(im[0]) if n else len(qids)
    arr = np.array(im, dtype=bool).reshape(n, m)
    with ArgsortRecorder() as rec:
        try:
            blocks, info = bz.blaze(arr, tuple(eids), tuple(qids), return_info=True)
            out = {
                "blocks": [[list(map(int, b.eids)), list(map(int, b.qids))] for b in blocks],
                "info": [[int(x) for x in info[k]] for k in
                         ("eids_first", "qids_first", "eids_last", "qids_last", "eids_inner", "qids_inner")],
                "im_inner": np.asarray(info["im_inner"]).astype(bool).tolist(),
            }
        except Exception as e:  # noqa
            out = {"raises": f"{type(e).__name__}: {e}"[:160]}
    out["calls"] = rec.calls
    return out


# ------------------------------------------------------------------ generators

def rand_labels(rng, n, hi=None):
    hi = hi or (2 * n + 12)
    return rng.sample(range(hi), n)


def _perm(rng, n):
    p = list(range(n))
    rng.shuffle(p)
    return p


def gen_matrix(rng, n, kind):
    """A boolean n x n matrix of the given kind (all kinds but 'free' contain a perfect matching)."""
    im = [[False] * n for _ in range(n)]
    if kind == "triangular":
        d = rng.choice([0.05, 0.15, 0.4])
        for i in range(n):
            im[i][i] = True
            for j in range(i):
                im[i][j] = rng.random() < d
    elif kind == "block":
        i = 0
        d_low = rng.choice([0.0, 0.05, 0.2])
        while i < n:
            b = min(n - i, rng.choice([1, 1, 2, 2, 3, 4, 6]))
            p = _perm(rng, b)
            dd = rng.choice([0.3, 0.6, 1.0])
            for a in range(b):
                im[i + a][i + p[a]] = True
                for c in range(b):
                    if rng.random() < dd:
                        im[i + a][i + c] = True
                for c in range(i):
                    if rng.random() < d_low:
                        im[i + a][c] = True
            i += b
    elif kind in ("dense", "sparse"):
        d = rng.choice([0.5, 0.8]) if kind == "dense" else rng.choice([0.02, 0.06, 0.12])
        p = _perm(rng, n)
        for i in range(n):
            im[i][p[i]] = True
            for j in range(n):
                if rng.random() < d:
                    im[i][j] = True
    elif kind == "free":
        d = rng.choice([0.1, 0.3, 0.6])
        for i in range(n):
            for j in range(n):
                im[i][j] = rng.random() < d
    else:
        raise ValueError(kind)
    if kind != "free":
        pr, pc = _perm(rng, n), _perm(rng, n)
        if rng.random() < 0.2:
            pr = list(range(n))
        if rng.random() < 0.2:
            pc = list(range(n))
        im = [[im[pr[i]][pc[j]] for j in range(n)] for i in range(n)]
    return im


def all_matrices(n):
    for bits in itertools.product([False, True], repeat=n * n):
        yield [list(bits[i * n:(i + 1) * n]) for i in range(n)]


def has_perfect_matching(im) -> bool:
    n = len(im)
    if any(len(r) != n for r in im):
        return False
    match = [-1] * n

    def aug(i, seen):
        for j in range(n):
            if im[i][j] and not seen[j]:
                seen[j] = True
                if match[j] < 0 or aug(match[j], seen):
                    match[j] = i
                    return True
        return False

    return all(aug(i, [False] * n) for i in range(n))


# ------------------------------------------------------------------ Coq rendering

def c_nats(xs) -> str:
    return "[" + ";".join(str(int(x)) for x in xs) + "]"


def c_bmat(im) -> str:
    return "[" + ";".join("[" + ";".join("true" if x else "false" for x in r) + "]" for r in im) + "]"


def c_table(calls) -> str:
    """The recorded calls without repetition: distinct (key, perm) pairs and the index of each call."""
    distinct, idx = {}, []
    for k, p in calls:
        key = (tuple(k), tuple(p))
        if key not in distinct:
            distinct[key] = len(distinct)
        idx.append(distinct[key])
    return "[" + ";".join(f"({c_nats(k)},{c_nats(p)})" for k, p in distinct) + "] " + c_nats(idx)


def c_expected_blaze(out) -> str:
    if "raises" in out:
        return "None"
    bl = "[" + ";".join(f"({c_nats(e)},{c_nats(q)})" for e, q in out["blocks"]) + "]"
    i = out["info"]
    pre = f"(mkPre {c_nats(i[0])} {c_nats(i[1])} {c_nats(i[2])} {c_nats(i[3])} {c_nats(i[4])} {c_nats(i[5])})"
    return f"Some (mkOut {bl} {pre} {c_bmat(out['im_inner'])} {len(out['calls'])})"


HEADER = """From Coq Require Import List Arith Bool.
From Verif Require Import gen.BlazerGen model.Blazer.
Import ListNotations.
Set Printing Width 1000000.
Set Printing Depth 1000000.
"""


def blaze_shard(cases, outs) -> str:
    lines = [HEADER, "Definition cases : list (option blaze_out * option blaze_out) := ["]
    items = []
    for c, o in zip(cases, outs):
        items.append(f"  (blaze (table_oracle {c_table(o['calls'])}) {c_bmat(c['im'])} {c_nats(c['eids'])} {c_nats(c['qids'])},\n"
                     f"   {c_expected_blaze(o)})")
    lines.append(";\n".join(items))
    lines.append("].")
    lines.append("Eval vm_compute in (failing_ opt_out_eqb cases 0).")
    return "\n".join(lines) + "\n"


def _collect(ctx, res: CorrResult, tag, shards, texts, describe):
    results = core.run_cases(ctx, texts, prefix=tag)
    res.shards += len(texts)
    for k, (ok, out) in enumerate(results):
        cs, os_ = shards[k]
        if not ok:
            res.disagreements.append(Disagreement(f"{tag} shard {k} does not evaluate", None, out[-600:], None))
            continue
        bodies = core.parse_eval_lists(out)
        if len(bodies) != 1:
            res.disagreements.append(Disagreement(f"{tag} shard {k}: unparsable output", None, out[-600:], None))
            continue
        for i in core.parse_nat_list(bodies[0]):
            res.disagreements.append(Disagreement(f"{tag}:{describe(cs[i])}", cs[i], "model result differs",
                                                  {k_: v for k_, v in os_[i].items() if k_ != "calls"}))
