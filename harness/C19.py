"""C19  Databox, dataslate and CSV conversions are lossless on selected names and span."""
from __future__ import annotations

import csv
import math
import numbers
import warnings

import numpy as np

from vf import core
from vf.core import CorrResult, Disagreement, Failure, coq_float, coq_z, coq_list, coq_bool
from translator import csvfmt as tr
from . import series_common as sc

ID = "C19"
PROPS = "props/C19.v"
GENERATED = [tr.OUT, tr.OUT4, tr.OUT5]
CASE_DEPS = ["lib/CaseUtil.vo", "lib/DbCase.vo", "model/Databox.vo", "model/Slate.vo", "model/Csv.vo", "model/Merge6.vo"]
ALLOWED_AXIOMS: set = set()
TRUSTED = [
    "translator/csvfmt.py (Frequency enum, default frequency order and rounding -> gen/CsvGen.v; fails closed when the "
    "row expressions of _ExportBlock.__iter__ / _block_iterator / column_iterator change shape)",
    "CPython's csv module (quoting, delimiter), numpy.genfromtxt's line splitting, float.__repr__/float(), numpy.round and "
    "str(Period)/Period.from_sdmx_string are glue: recorded per run as tables and looked up by the executable model",
    "the Series model of C10 (model/Series.v, model/SeriesOps.v) for set_data / overlay / underlay / clip / hstack / trim",
    "translator/csvfmt.py round-4 fragments -> gen/Csv4Gen.v: the keep test of the exporter's frequency -> periods table "
    "(_resolve_frequency_span, translated; the other statements and get_span_by_frequency's EmptySpan cases compared with "
    "their expected shapes) and the loop / strategy functions / dispatch table of databoxes/_merge.py (compared with the "
    "shapes modelled by model/Databox.v: merge_step); fail closed",
]
ASSUMPTIONS = [
    "csv_roundtrip is proved over abstract injective codecs (period <-> text, number <-> text); the period codecs are C11's",
    "the sheet is a grid of cells: the theorem does not cover cells that the csv module and genfromtxt split differently "
    "(a line break inside a description, a delimiter occurring inside a number or a period string)",
    "Python aliasing is outside the pure model (value semantics): merge stores the other databox's objects, the harness "
    "passes copies; that copy() returns a databox sharing no mutable item with its source is checked by the correspondence "
    "(every databox of the session is compared after each history) and by the falsifier (sessions), not proved",
    "strict_names=True and start_period_only=True are not modelled",
]
MANIFEST = {
    "technique": "Coq proof over an executable model of the databox map, the CSV grid and the dataslate, with abstract "
                 "codecs; exact correspondence against the public API (cell-by-cell grids, re-imported databoxes, "
                 "dataslate arrays, operation histories); tables regenerated from the source",
    "level_text": "Theorems (props/C19.v): import(export(db)) returns every exported series with its name, description, "
                  "variant count and, period by period, its rounded values on the exported span (missing elsewhere), for "
                  "every databox, name selection and frequency-span option, and equals the rounded input when the series "
                  "are trimmed and the span is the default one; the stated exceptions are names that are empty, '*' or "
                  "start with '__', and series without any observation (they come back empty, without a frequency); "
                  "databox -> dataslate -> databox returns the input values on the span, missing elsewhere, changed only "
                  "by the declared fallbacks, overwrites and base-span clipping, variants exhaust-then-last; every "
                  "databox operation leaves the unselected names untouched and applies the series / dictionary semantics "
                  "to the selected ones, by induction over operation histories.",
    "level_note": "Trusted: Coq kernel + vm_compute, translator/csvfmt.py, harness. Modelled not verified: csv module, "
                  "genfromtxt, float/period text codecs (hypotheses of the theorem; recorded tables in the correspondence), "
                  "Python aliasing.",
}

ERR = {"TypeError": 1, "AttributeError": 1, "IrisPieError": 2, "IrisPieCritical": 2, "ValueError": 3, "KeyError": 4,
       "IndexError": 5}
FREQ_LIST = [1, 2, 4, 12, 365, 0]
NAME_POOL = ["a", "b", "c", "gdp", "cpi", "x_1", "y2", "ab", "kk", "zeta", "A", "a_b", "_u"]
DESC_POOL = ["", "", "", "Gross domestic product", "with, comma", 'quoted "q"', "semi; colon", "x*y", "#hash", "  spaced "]
NAN_STRS = ["", "", "NaN", "NA", ".", "nan"]
DELIMS = [",", ",", ",", ";", "\t", "|"]
ROUNDS = ["default", "default", 12, None, 2, 0, 5, -1]       # "default": the round= argument is omitted
VALUE_POOL = ([k / 4.0 for k in range(-40, 41)]
              + [1.23456789012345, 0.1, 2.675, 1e-13, 12345.678901234567, -0.000049, 0.30000000000000004,
                 -7.125e-7, 1e15 + 0.5, 3.0000000000004, 99.995])


def translate(ctx):
    tr.run()


def err_code(e: BaseException) -> int:
    return ERR.get(type(e).__name__, 9)


# ====================================================================== specs <-> implementation objects

def mk_series(spec: dict):
    import irispie as ir
    s = ir.Series(num_variants=spec["nv"], description=spec.get("desc", ""))
    if spec["start"] is not None:
        s.start = sc.mk_period(spec["freq"], spec["start"])
        s.data = np.array(spec["rows"], dtype=float).reshape(len(spec["rows"]), spec["nv"])
    return s


def mk_item(it: dict):
    if it["k"] == "ser":
        return mk_series(it)
    if it["k"] == "scal":
        return float(it["v"])
    return [mk_item(e) for e in it["l"]]


def mk_db(spec: list):
    import irispie as ir
    db = ir.Databox()
    for name, it in spec:
        db[name] = mk_item(it)
    return db


def observe_item(v) -> dict:
    import irispie as ir
    if isinstance(v, ir.Series):
        o = sc.observe(v)
        o["k"] = "ser"
        o["desc"] = v.get_description()
        if not isinstance(o["desc"], str):
            o["desc"] = repr(o["desc"])
        return o
    if isinstance(v, numbers.Real) and not isinstance(v, bool):
        return {"k": "scal", "v": float(v)}
    if isinstance(v, list):
        return {"k": "list", "l": [observe_item(e) for e in v]}
    return {"k": "other", "repr": repr(v)[:80]}


def observe_db(db) -> list:
    return [[str(k), observe_item(v)] for k, v in db.items()]


# ====================================================================== Coq literals

def cstr(s: str) -> str:
    return core.coq_string(s) + "%string"


def cnat(n: int) -> str:
    return f"{n}%nat"


def coptz(v) -> str:
    return "None" if v is None else f"(Some {coq_z(v)})"


def c_elem(o: dict) -> str:
    if o["k"] == "scal":
        return f"(@EScal FA {coq_float(o['v'])})"
    if o["k"] == "ser":
        return f"(@ESer FA {cstr(o['desc'])} {sc.coq_series(o)})"
    raise ValueError(f"item not representable: {o}")


def c_item(o: dict) -> str:
    if o["k"] == "list":
        if any(e["k"] == "list" for e in o["l"]):
            raise ValueError("nested list")
        return f"(@IList FA {coq_list([c_elem(e) for e in o['l']])})"
    return f"(@INon FA {c_elem(o)})"


def c_db(obs: list) -> str:
    return "(" + coq_list([f"({cstr(n)}, {c_item(it)})" for n, it in obs]) + " : databox FA)"


def c_res_db(out: dict) -> str:
    if "err" in out:
        return f"(Err {out['err']}%nat)"
    return f"(Ok {c_db(out['ok'])})"


def c_strlist(l) -> str:
    return coq_list([cstr(x) for x in l])


HEADER = """From Coq Require Import String Ascii ZArith List Bool PrimFloat.
From Verif Require Import lib.Arith lib.CaseUtil lib.DbCase model.Series model.SeriesOps model.Databox model.Slate model.Csv.
Import ListNotations.
Open Scope Z_scope.
Set Printing Width 1000000.
Set Printing Depth 1000000.
Definition tb : ftables := {| t_ln := []; t_exp := []; t_pow := [] |}.
Notation FA := (FArith tb).
"""


# ====================================================================== random databoxes

def rand_value(rng) -> float:
    return float(rng.choice(VALUE_POOL))


def base_start(rng, freq: int) -> int:
    if freq == 365:
        return 730100 + rng.randint(0, 3000)
    if freq == 0:
        return rng.randint(-6, 12)
    return (1998 + rng.randint(0, 25)) * freq + rng.randint(0, freq - 1)


def rand_series(rng, freq, nv, start, maxlen=7, p_nan=0.15, desc=None) -> dict:
    n = rng.randint(1, maxlen)
    rows = [[float("nan") if rng.random() < p_nan else rand_value(rng) for _ in range(nv)] for _ in range(n)]
    for idx in (0, -1):
        if all(math.isnan(v) for v in rows[idx]):
            rows[idx][rng.randrange(nv)] = rand_value(rng)
    return {"k": "ser", "freq": freq, "start": start, "nv": nv, "rows": rows,
            "desc": rng.choice(DESC_POOL) if desc is None else desc}


def empty_series(rng) -> dict:
    return {"k": "ser", "freq": 0, "start": None, "nv": rng.choice([1, 1, 2, 3]), "rows": [], "desc": rng.choice(DESC_POOL)}


def rand_scalar(rng) -> dict:
    return {"k": "scal", "v": rand_value(rng)}


def rand_list(rng) -> dict:
    return {"k": "list", "l": [rand_scalar(rng) for _ in range(rng.choice([0, 1, 2, 2, 3]))]}


class World:
    """Per-history conventions so that equal names in different databoxes are usually compatible."""

    def __init__(self, rng, nfreq=2):
        self.rng = rng
        self.freqs = rng.sample(FREQ_LIST, nfreq)
        self.base = {f: base_start(rng, f) for f in FREQ_LIST}
        self.home = {}
        for n in NAME_POOL:
            q = rng.random()
            kind = "ser" if q < 0.74 else "scal" if q < 0.84 else "list" if q < 0.93 else "empty"
            self.home[n] = (kind, rng.choice(self.freqs), rng.choice([1, 1, 2, 3]))

    def item(self, name) -> dict:
        rng = self.rng
        kind, freq, nv = self.home[name]
        if rng.random() < 0.1:
            kind = rng.choice(["ser", "scal", "list", "empty"])
        if rng.random() < 0.1:
            freq = rng.choice(FREQ_LIST)
        if rng.random() < 0.2:
            nv = rng.choice([1, 1, 2, 3])
        if kind == "ser":
            return rand_series(rng, freq, nv, self.base[freq] + rng.randint(-3, 5))
        if kind == "scal":
            return rand_scalar(rng)
        if kind == "list":
            return rand_list(rng)
        return empty_series(rng)

    def databox(self, p=0.55) -> list:
        names = [n for n in NAME_POOL if self.rng.random() < p]
        self.rng.shuffle(names)
        return [[n, self.item(n)] for n in names]


# ====================================================================== name selections

def rand_sel(rng, ctx: list, allow_all=True, p_absent=0.25) -> dict:
    q = rng.random()
    if allow_all and q < 0.12:
        return {"t": "all"}
    if q < 0.62 or not ctx:
        k = rng.randint(0, min(3, len(ctx)))
        l = rng.sample(ctx, k)
        if rng.random() < p_absent:
            l.append(rng.choice(NAME_POOL + ["nope"]))
        if l and rng.random() < 0.05:
            l.append(rng.choice(l))
        rng.shuffle(l)
        if len(l) == 1 and rng.random() < 0.3:
            return {"t": "str", "s": l[0]}
        return {"t": "list", "l": l}
    q = rng.random()
    if q < 0.4:
        return {"t": "pred", "p": ["prefix", rng.choice(ctx)[0]]}
    if q < 0.7:
        return {"t": "pred", "p": ["in", rng.sample(NAME_POOL, 4)]}
    return {"t": "pred", "p": ["lenle", rng.randint(1, 3)]}


def rand_tgt(rng, nsrc: int, ctx: list) -> dict:
    q = rng.random()
    if q < 0.3:
        return {"t": "same"}
    if q < 0.65:
        k = max(0, nsrc + rng.choice([0, 0, 0, 0, -1, 1]))
        pool = ["n1", "n2", "n3", "n4", "n5"] + ctx[:2] + NAME_POOL[:3]
        return {"t": "list", "l": [rng.choice(pool) for _ in range(k)] if rng.random() < 0.3 else rng.sample(pool, min(k, len(pool)))}
    q = rng.random()
    if q < 0.45:
        return {"t": "fun", "f": ["prefix", rng.choice(["x_", "new_", "a"])]}
    if q < 0.85:
        return {"t": "fun", "f": ["suffix", rng.choice(["_1", "2", "_b"])]}
    return {"t": "fun", "f": ["const", rng.choice(["k", "a", "zz"])]}


def py_pred(p):
    if p[0] == "prefix":
        return lambda n: n.startswith(p[1])
    if p[0] == "in":
        return lambda n: n in p[1]
    return lambda n: len(n) <= p[1]


def py_sel(s):
    return {"all": lambda: None, "list": lambda: list(s["l"]), "str": lambda: s["s"],
            "pred": lambda: py_pred(s["p"])}[s["t"]]()


def py_fun(f):
    if f[0] == "prefix":
        return lambda n: f[1] + n
    if f[0] == "suffix":
        return lambda n: n + f[1]
    return lambda n: f[1]


def py_tgt(t):
    return {"same": lambda: None, "list": lambda: list(t["l"]), "fun": lambda: py_fun(t["f"])}[t["t"]]()


def c_sel(s) -> str:
    if s["t"] == "all":
        return "SelAll"
    if s["t"] == "list":
        return f"(SelList {c_strlist(s['l'])})"
    if s["t"] == "str":
        return f"(SelList {c_strlist([s['s']])})"
    p = s["p"]
    if p[0] == "prefix":
        return f"(SelPred (fun n => prefix {cstr(p[1])} n))"
    if p[0] == "in":
        return f"(SelPred (fun n => smem n {c_strlist(p[1])}))"
    return f"(SelPred (fun n => Nat.leb (String.length n) {p[1]}))"


def c_tgt(t) -> str:
    if t["t"] == "same":
        return "TgtSame"
    if t["t"] == "list":
        return f"(TgtList {c_strlist(t['l'])})"
    f = t["f"]
    if f[0] == "prefix":
        return f"(TgtFun (fun n => ({cstr(f[1])} ++ n)%string))"
    if f[0] == "suffix":
        return f"(TgtFun (fun n => (n ++ {cstr(f[1])})%string))"
    return f"(TgtFun (fun n => {cstr(f[1])}))"


def resolved_count(ctx, s) -> int:
    if s["t"] == "all":
        return len(ctx)
    if s["t"] == "list":
        return len(s["l"])
    if s["t"] == "str":
        return 1
    return len([n for n in ctx if py_pred(s["p"])(n)])


# ====================================================================== operation histories

STRATEGIES = ["stack", "stack", "stack", "hstack", "replace", "replace", "discard", "silent", "warning", "error", "critical"]
C_STRATEGY = {"stack": "MStack", "hstack": "MStack", "replace": "MReplace", "discard": "MDiscard",
              "silent": "(MReport false)", "warning": "(MReport false)", "error": "(MReport true)",
              "critical": "(MReport true)"}
OP_KINDS = (["copy"] * 3 + ["rename"] * 4 + ["remove"] * 2 + ["keep"] * 2 + ["overlay"] * 3 + ["underlay"] * 3
            + ["clip"] * 3 + ["prepend"] * 2 + ["merge"] * 4)
NREG = 3


def series_names(db):
    import irispie as ir
    return [k for k, v in db.items() if isinstance(v, ir.Series)]


def gen_op(rng, R, w: World) -> dict:
    kind = rng.choice(OP_KINDS)
    dst = rng.randrange(NREG)
    ctx = list(R[dst].keys())
    if kind == "copy":
        src = rng.randrange(NREG)
        sctx = list(R[src].keys())
        s = rand_sel(rng, sctx)
        t = rand_tgt(rng, resolved_count(sctx, s), sctx) if rng.random() < 0.6 else {"t": "same"}
        return {"op": "copy", "dst": dst, "src": src, "sel": s, "tgt": t}
    if kind == "rename":
        s = rand_sel(rng, ctx)
        return {"op": "rename", "dst": dst, "sel": s, "tgt": rand_tgt(rng, resolved_count(ctx, s), ctx)}
    if kind in ("remove", "keep"):
        return {"op": kind, "dst": dst, "sel": rand_sel(rng, ctx)}
    if kind in ("overlay", "underlay"):
        src = rng.choice([i for i in range(NREG) if i != dst] * 4 + [dst])
        if rng.random() < 0.55:
            ns = None
        else:
            both = [n for n in series_names(R[dst]) if n in series_names(R[src])]
            pool = both * 3 + series_names(R[dst]) + ["nope"] + (ctx if rng.random() < 0.1 else [])
            ns = [rng.choice(pool) for _ in range(rng.randint(0, 3))] if pool else []
        return {"op": "lay", "dst": dst, "src": src, "under": kind == "underlay", "names": ns}
    if kind == "clip":
        f = rng.choice(w.freqs + w.freqs + FREQ_LIST)
        a = w.base[f] + rng.randint(-4, 6) if rng.random() < 0.7 else None
        b = w.base[f] + rng.randint(-2, 9) if rng.random() < 0.7 else None
        return {"op": "clip", "dst": dst, "f": f, "a": a, "b": b}
    if kind == "prepend":
        src = rng.choice([i for i in range(NREG) if i != dst])
        f = rng.choice(w.freqs)
        return {"op": "prepend", "dst": dst, "src": src, "f": f, "e": w.base[f] + rng.randint(-3, 8)}
    srcs = [rng.randrange(NREG) for _ in range(rng.choice([1, 1, 2, 2, 3]))]
    return {"op": "merge", "dst": dst, "srcs": srcs, "single": len(srcs) == 1 and rng.random() < 0.6,
            "strategy": rng.choice(STRATEGIES)}


def apply_op(R, op):
    """Runs the operation on the implementation databoxes R (in place); returns the new dst databox."""
    k = op["op"]
    d = op["dst"]
    if k == "copy":
        R[d] = R[op["src"]].copy(py_sel(op["sel"]), py_tgt(op["tgt"]))
    elif k == "rename":
        R[d].rename(py_sel(op["sel"]), py_tgt(op["tgt"]))
    elif k == "remove":
        R[d].remove(py_sel(op["sel"]))
    elif k == "keep":
        R[d].keep(py_sel(op["sel"]))
    elif k == "lay":
        other = R[op["src"]]
        kw = {} if op["names"] is None else {"names": list(op["names"])}
        (R[d].underlay if op["under"] else R[d].overlay)(other, **kw)
    elif k == "clip":
        a = None if op["a"] is None else sc.mk_period(op["f"], op["a"])
        b = None if op["b"] is None else sc.mk_period(op["f"], op["b"])
        R[d].clip(a, b)
    elif k == "prepend":
        R[d].prepend(R[op["src"]], sc.mk_period(op["f"], op["e"]))
    elif k == "merge":
        # the pure model has no aliasing: merge receives deep copies
        others = [R[i].copy() for i in op["srcs"]]
        R[d].merge(others[0] if op["single"] else others, op["strategy"])
    return R[d]


def c_op(op) -> str:
    k = op["op"]
    d = cnat(op["dst"])
    if k == "copy":
        return f"DCopy {d} {cnat(op['src'])} {c_sel(op['sel'])} {c_tgt(op['tgt'])}"
    if k == "rename":
        return f"DRename {d} {c_sel(op['sel'])} {c_tgt(op['tgt'])}"
    if k == "remove":
        return f"DRemove {d} {c_sel(op['sel'])}"
    if k == "keep":
        return f"DKeep {d} {c_sel(op['sel'])}"
    if k == "lay":
        ns = "None" if op["names"] is None else f"(Some {c_strlist(op['names'])})"
        return f"DLay {d} {cnat(op['src'])} {coq_bool(op['under'])} {ns}"
    if k == "clip":
        return f"DClip {d} {coq_z(op['f'])} {coptz(op['a'])} {coptz(op['b'])}"
    if k == "prepend":
        return f"DPrepend {d} {cnat(op['src'])} {coq_z(op['f'])} {coq_z(op['e'])}"
    return f"DMerge {d} {coq_list([cnat(i) for i in op['srcs']])} {C_STRATEGY[op['strategy']]}"


def representable(obs) -> bool:
    for _, it in obs:
        if it["k"] == "other":
            return False
        if it["k"] == "list" and any(e["k"] in ("list", "other") for e in it["l"]):
            return False
    return True


def gen_history(rng, nops: int) -> dict:
    w = World(rng, nfreq=rng.choice([1, 2, 2, 3]))
    init = [w.databox() for _ in range(NREG)]
    R = [mk_db(s) for s in init]
    ops, outs = [], []
    for _ in range(nops):
        op = gen_op(rng, R, w)
        try:
            with warnings.catch_warnings():
                warnings.simplefilter("ignore")
                db = apply_op(R, op)
            obs = observe_db(db)
            if not representable(obs):
                break                      # a state outside the item model (nested lists): stop before this step
            ops.append(op)
            outs.append({"ok": obs})
        except Exception as e:  # noqa
            code = err_code(e)
            if op["op"] in ("lay", "prepend") and code == 1:
                code = 2                  # which name fails first depends on set order: one class for lay errors
            ops.append(op)
            outs.append({"err": code, "exc": f"{type(e).__name__}: {e}"[:160]})
            break
    # every databox of the session after the history (not after an operation that raised: it may have stopped half way)
    finals = None
    if ops and len(ops) == len(outs) and "ok" in outs[-1]:
        finals = [observe_db(db) for db in R]
        if not all(representable(o) for o in finals):
            finals = None
    return {"init": init, "ops": ops, "outs": outs, "finals": finals}


def c_history(h) -> str:
    init = coq_list([c_db(s) for s in h["init"]], sep=";\n    ")
    ops = coq_list([c_op(o) for o in h["ops"]], sep=";\n    ")
    outs = coq_list([c_res_db(o) for o in h["outs"]], sep=";\n    ")
    fin = "None" if h.get("finals") is None else "Some " + coq_list([c_db(s) for s in h["finals"]], sep=";\n    ")
    return f"  ({init},\n   {ops},\n   {outs},\n   {fin})"


def ops_shard(hs) -> str:
    return (HEADER + "Definition hs : list (dregs FA * list dop * list (res (databox FA)) * option (list (databox FA))) := [\n"
            + ";\n".join(c_history(h) for h in hs) + "\n].\n"
            + "Eval vm_compute in (failing_codes (map (check_ops_all tb) hs) 0).\n")


# ====================================================================== round 6: target state after a reporting merge

REPORTING = ["error", "error", "critical", "critical", "silent", "warning"]


def gen_merge_report_case(rng) -> dict:
    """self.merge(others, strategy) with a reporting strategy; the TARGET is observed after the call returned or raised."""
    w = World(rng, nfreq=rng.choice([1, 2]))
    nb = rng.choice([1, 2, 2, 3, 4])
    target = w.databox(rng.choice([0.0, 0.15, 0.3, 0.5]))
    others = [w.databox(rng.choice([0.1, 0.2, 0.35])) for _ in range(nb)]
    if rng.random() < 0.35:      # no key twice: the call must not raise
        seen = {k for k, _ in target}
        for i, o in enumerate(others):
            others[i] = [[k, v] for k, v in o if k not in seen]
            seen |= {k for k, _ in others[i]}
    strategy = rng.choice(REPORTING)
    T = mk_db(target)
    args = [mk_db(o) for o in others]
    single = nb == 1 and rng.random() < 0.5
    raised = None
    try:
        with warnings.catch_warnings():
            warnings.simplefilter("ignore")
            T.merge(args[0] if single else args, strategy)
    except Exception as e:  # noqa
        raised = f"{type(e).__name__}: {e}"[:120]
    return {"target": target, "others": others, "strategy": strategy, "single": single, "raised": raised,
            "after": observe_db(T), "t_obs": observe_db(mk_db(target)), "o_obs": [observe_db(mk_db(o)) for o in others]}


MERGE6_DEFS = """From Verif Require Import model.Merge6.
(* 0 = agree; 1 = the target after the call differs; 2 = raised / did not raise differs *)
Definition check_merge6 (c : databox FA * list (databox FA) * bool * bool * bool * databox FA) : nat :=
  let '(db, others, critical, raising, raised, after) := c in
  let '(d, dup) := merge_report_state FA critical db others in
  if negb (databox_eqb tb d after) then 1%nat
  else if Bool.eqb (raising && dup) raised then 0%nat else 2%nat.
"""


def merge6_shard(items) -> str:
    rows = []
    for c in items:
        rows.append("  (%s,\n   %s,\n   %s, %s, %s,\n   %s)" % (
            c_db(c["t_obs"]), coq_list([c_db(o) for o in c["o_obs"]], sep=";\n    "),
            coq_bool(c["strategy"] == "critical"), coq_bool(c["strategy"] in ("error", "critical")),
            coq_bool(c["raised"] is not None), c_db(c["after"])))
    return (HEADER + MERGE6_DEFS
            + "Definition cs : list (databox FA * list (databox FA) * bool * bool * bool * databox FA) := [\n"
            + ";\n".join(rows) + "\n].\n"
            + "Eval vm_compute in (failing_codes (map check_merge6 cs) 0).\n")


# ====================================================================== dataslates

def rand_fb(rng, names) -> dict:
    out = {}
    for n in rng.sample(names + ["nope", "zz"], rng.randint(0, min(3, len(names) + 2))):
        q = rng.random()
        out[n] = rand_value(rng) if q < 0.6 else [rand_value(rng) for _ in range(rng.choice([0, 1, 2, 3]))]
    return out


def gen_slate_case(rng) -> dict:
    w = World(rng, nfreq=rng.choice([1, 1, 1, 2]))
    fr = w.freqs[0]
    db = w.databox(p=0.6)
    keys = [n for n, _ in db]
    q = rng.random()
    if q < 0.15:
        names = None
    else:
        names = rng.sample(keys, rng.randint(0, len(keys))) if keys else []
        if rng.random() < 0.4:
            names.append(rng.choice(["nope", "zz"]))
        if names and rng.random() < 0.1:
            names.append(rng.choice(names))
        rng.shuffle(names)
    if rng.random() < 0.85:     # mostly keep series of another frequency out of the selection (they raise IrisPieError)
        other = {nm for nm, it in db if it["k"] == "ser" and it["start"] is not None and it["freq"] != fr}
        if names is None:
            names = list(keys)
        names = [nm for nm in names if nm not in other]
    n = rng.randint(1, 9)
    frm = w.base[fr] + rng.randint(-5, 5)
    nvar = rng.choice([1, 1, 2, 3, 4])
    allnames = keys if names is None else names
    case = {"db": db, "names": names, "fr": fr, "from": frm, "n": n, "nvar": nvar,
            "fallbacks": rand_fb(rng, list(allnames)) if rng.random() < 0.6 else None,
            "overwrites": rand_fb(rng, list(allnames)) if rng.random() < 0.35 else None,
            "clip": rng.random() < 0.3, "trim": rng.random() < 0.8}
    if rng.random() < 0.5:
        a = rng.randint(0, n - 1)
        b = rng.randint(a, n - 1)
        case["base"] = list(range(a, b + 1))
    else:
        case["base"] = None
    return case


def run_slate(case) -> tuple[dict, dict]:
    import irispie as ir
    from irispie.dataslates.main import Dataslate
    try:
        db = mk_db(case["db"])
        span = ir.Span(sc.mk_period(case["fr"], case["from"]), sc.mk_period(case["fr"], case["from"] + case["n"] - 1))
        kw = {}
        if case["base"] is not None:
            kw["base_columns"] = tuple(case["base"])
        ds = Dataslate.from_databox(db, case["names"], span, num_variants=case["nvar"], fallbacks=case["fallbacks"],
                                    overwrites=case["overwrites"], clip_data_to_base_span=case["clip"], **kw)
        arrays = [np.asarray(ds.get_data_variant(k), dtype=float).tolist() for k in range(ds.num_variants)]
        names = list(ds.names)
        sl = {"ok": arrays, "names": names}
    except Exception as e:  # noqa
        code = err_code(e)
        return {"err": code, "exc": f"{type(e).__name__}: {e}"[:160]}, {"err": code}
    try:
        back = ds.to_databox(trim=case["trim"])
        return sl, {"ok": observe_db(back)}
    except Exception as e:  # noqa
        return sl, {"err": err_code(e), "exc": f"{type(e).__name__}: {e}"[:160]}


def c_fb(d) -> str:
    if not d:
        return "[]"
    items = []
    for k, v in d.items():
        if isinstance(v, list):
            items.append(f"({cstr(k)}, @FList FA {coq_list([coq_float(x) for x in v])})")
        else:
            items.append(f"({cstr(k)}, @FScal FA {coq_float(v)})")
    return coq_list(items)


def c_slate_case(case, sl, back) -> str:
    nms = "None" if case["names"] is None else f"(Some {c_strlist(case['names'])})"
    base = coq_list([cnat(i) for i in (case["base"] or [])])
    o = (f"(mkSopts FA {cnat(case['nvar'])} {c_fb(case['fallbacks'])} {c_fb(case['overwrites'])} "
         f"{coq_bool(case['clip'])} {base})")
    if "err" in sl:
        csl = f"(Err {sl['err']}%nat)"
    else:
        csl = "(Ok " + coq_list([coq_list([coq_list([coq_float(x) for x in row]) for row in arr]) for arr in sl["ok"]]) + ")"
    return (f"  check_slate tb {c_db(case['db'])} {nms} {coq_z(case['fr'])} {coq_z(case['from'])} {cnat(case['n'])}\n"
            f"    {o} {coq_bool(case['trim'])}\n    {csl}\n    {c_res_db(back)}")


def slate_shard(items) -> str:
    return (HEADER + "Definition codes : list nat := [\n" + ";\n".join(c_slate_case(*it) for it in items) + "\n].\n"
            + "Eval vm_compute in (failing_codes codes 0).\n")


# ---- the dataslate as an object: span-changing methods, then to_databox(span="full" | "base") ----

def gen_slate_ops_case(rng) -> dict:
    case = gen_slate_case(rng)
    n = case["n"]
    if rng.random() < 0.85:                      # declared base columns: a contiguous block inside the span
        a = rng.randint(0, n - 1)
        b = rng.randint(a, n - 1)
        case["base"] = list(range(a, b + 1))
    else:
        case["base"] = None
    base = case["base"] or []
    if base and rng.random() < 0.75:             # the layout of a model with lags and leads
        mms = [-base[0], n - 1 - base[-1]]
    else:
        mms = [rng.randint(-3, 1), rng.randint(-1, 3)]
    case["mms"] = mms
    ops = []
    cur_n, first = n, (base[0] if base else 0)
    for _ in range(rng.choice([0, 1, 1, 2, 2, 3])):
        q = rng.random()
        if q < 0.3:
            k = rng.choice([first, first, rng.randint(0, max(cur_n, 1)), rng.randint(0, 2), -1 if rng.random() < 0.1 else 1])
            ops.append(["remove_start", k]); cur_n = max(cur_n - max(k, 0), 0); first = max(first - max(k, 0), 0)
        elif q < 0.45:
            k = rng.choice([rng.randint(0, 2), rng.randint(0, max(cur_n, 1)), mms[1]])
            ops.append(["remove_end", k]); cur_n = max(cur_n - max(k, 0), 0)
        elif q < 0.55:
            ops.append(["add_end", rng.randint(0, 2)])
        elif q < 0.72:
            ops.append(["remove_initial"]); cur_n = max(cur_n + min(mms[0], 0), 0); first = max(first + min(mms[0], 0), 0)
        elif q < 0.82:
            ops.append(["remove_terminal"]); cur_n = max(cur_n - max(mms[1], 0), 0)
        elif q < 0.91:
            nm = case["names"] if case["names"] is not None else [k_ for k_, _ in case["db"]]
            pool = list(nm) + ["nope"]
            ops.append(["rename", {o_: rng.choice(["r1", "r2", "r3"] + list(nm)) for o_ in rng.sample(pool, rng.randint(0, min(2, len(pool))))}])
        else:
            lo = case["from"] - 1
            ops.append(["set_base", sorted(rng.sample(range(lo, lo + n + 2), rng.randint(0, min(3, n + 2))))])
    case["ops"] = ops
    return case


def apply_slate_op(ds, op, fr):
    k = op[0]
    if k == "remove_start":
        ds.remove_periods_from_start(op[1])
    elif k == "remove_end":
        ds.remove_periods_from_end(op[1])
    elif k == "add_end":
        ds.add_periods_to_end(op[1])
    elif k == "remove_initial":
        ds.remove_initial()
    elif k == "remove_terminal":
        ds.remove_terminal()
    elif k == "rename":
        ds.rename(dict(op[1]))
    else:
        ds.base_periods = [sc.mk_period(fr, t) for t in op[1]]


def run_slate_ops(case) -> tuple[dict, dict, dict]:
    import irispie as ir
    from irispie.dataslates.main import Dataslate
    try:
        db = mk_db(case["db"])
        span = ir.Span(sc.mk_period(case["fr"], case["from"]), sc.mk_period(case["fr"], case["from"] + case["n"] - 1))
        kw = {"min_max_shift": tuple(case["mms"])}
        if case["base"] is not None:
            kw["base_columns"] = tuple(case["base"])
        ds = Dataslate.from_databox(db, case["names"], span, num_variants=case["nvar"], fallbacks=case["fallbacks"],
                                    overwrites=case["overwrites"], clip_data_to_base_span=case["clip"], **kw)
        for op in case["ops"]:
            apply_slate_op(ds, op, case["fr"])
        st = {"ok": {"names": list(ds.names), "periods": [int(p.serial) for p in ds.periods],
                     "arrays": [np.asarray(ds.get_data_variant(k), dtype=float).tolist() for k in range(ds.num_variants)]}}
        try:
            st["ok"]["base_periods"] = {"ok": [int(p.serial) for p in ds.base_periods]}
        except Exception as e:  # noqa
            st["ok"]["base_periods"] = {"err": err_code(e)}
    except Exception as e:  # noqa
        code = err_code(e)
        return {"err": code, "exc": f"{type(e).__name__}: {e}"[:160]}, {"err": code}, {"err": code}
    outs = []
    for mode in ("full", "base"):
        try:
            outs.append({"ok": observe_db(ds.to_databox(span=mode, trim=case["trim"]))})
        except Exception as e:  # noqa
            outs.append({"err": err_code(e), "exc": f"{type(e).__name__}: {e}"[:160]})
    return st, outs[0], outs[1]


def c_slop(op) -> str:
    k = op[0]
    if k == "remove_start":
        return f"SRemoveStart {coq_z(op[1])}"
    if k == "remove_end":
        return f"SRemoveEnd {coq_z(op[1])}"
    if k == "add_end":
        return f"SAddEnd {coq_z(op[1])}"
    if k == "remove_initial":
        return "SRemoveInitial"
    if k == "remove_terminal":
        return "SRemoveTerminal"
    if k == "rename":
        return "SRename " + coq_list([f"({cstr(a)}, {cstr(b)})" for a, b in op[1].items()])
    return "SSetBase " + coq_list([coq_z(t) for t in op[1]])


def c_arrays(arrs) -> str:
    return coq_list([coq_list([coq_list([coq_float(x) for x in row]) for row in arr]) for arr in arrs])


def c_slate_ops_case(case, st, full, base) -> str:
    nms = "None" if case["names"] is None else f"(Some {c_strlist(case['names'])})"
    o = (f"(mkSopts FA {cnat(case['nvar'])} {c_fb(case['fallbacks'])} {c_fb(case['overwrites'])} "
         f"{coq_bool(case['clip'])} {coq_list([cnat(i) for i in (case['base'] or [])])})")
    if "err" in st:
        cst = f"(Err {st['err']}%nat)"
    else:
        x = st["ok"]
        bp = x["base_periods"]
        cbp = f"(Err {bp['err']}%nat)" if "err" in bp else f"(Ok {coq_list([coq_z(t) for t in bp['ok']])})"
        cst = (f"(Ok ({c_strlist(x['names'])}, {coq_list([coq_z(t) for t in x['periods']])}, {cbp},\n"
               f"      ({c_arrays(x['arrays'])} : slate FA)))")
    ops = coq_list([c_slop(op) for op in case["ops"]])
    return (f"  check_slate_ops tb {c_db(case['db'])} {nms} {coq_z(case['fr'])} {coq_z(case['from'])} {cnat(case['n'])}\n"
            f"    {o} ({coq_z(case['mms'][0])}, {coq_z(case['mms'][1])}) {ops} {coq_bool(case['trim'])}\n    {cst}\n"
            f"    {c_res_db(full)}\n    {c_res_db(base)}")


def slate_ops_shard(items) -> str:
    return (HEADER + "Definition codes : list nat := [\n" + ";\n".join(c_slate_ops_case(*it) for it in items) + "\n].\n"
            + "Eval vm_compute in (failing_codes codes 0).\n")


# ====================================================================== CSV

def rand_csv_db(rng) -> tuple[list, dict]:
    freqs = rng.sample(FREQ_LIST, rng.choice([1, 2, 2, 3, 4, 6]))
    base = {f: base_start(rng, f) for f in FREQ_LIST}
    names = rng.sample(NAME_POOL, rng.randint(1, 9))
    db = []
    p_ser = rng.choice([0.8, 0.8, 0.8, 0.8, 0.5, 0.0])       # 0.0: no dated series at all (a sheet without data rows)
    for n in names:
        q = rng.random() * 0.8 / p_ser if p_ser else 0.95
        if q < 0.8:
            f = rng.choice(freqs)
            db.append([n, rand_series(rng, f, rng.choice([1, 1, 2, 3]), base[f] + rng.randint(-3, 5), maxlen=8)])
        elif q < 0.87:
            db.append([n, rand_scalar(rng)])
        elif q < 0.93:
            db.append([n, rand_list(rng)])
        else:
            db.append([n, empty_series(rng)])
    return db, base


def rand_periods(rng, lo, hi) -> list:
    a = rng.randint(lo, hi)
    b = rng.randint(a, hi)
    l = list(range(a, b + 1))
    q = rng.random()
    if q < 0.1:
        l = l[::2]
    elif q < 0.18:
        l = l[::-1]
    elif q < 0.24 and l:
        l = l + [l[0]]
    elif q < 0.32:                       # round 5: a Span with a larger step, ascending or descending
        l = l[::rng.choice([3, 4, -2, -3])]
    elif q < 0.42 and l:                 # round 5: hand-picked periods, in order or not
        l = rng.sample(l, rng.randint(1, len(l)))
        if rng.random() < 0.6:
            l.sort()
    return l


def _periods_shape(l) -> str:
    if len(l) <= 1:
        return "empty" if not l else "single"
    d = [b - a for a, b in zip(l, l[1:])]
    if len(set(l)) < len(l):
        return "with-repeated-period"
    if all(x == 1 for x in d):
        return "contiguous"
    if len(set(d)) == 1:
        return "stepped" if d[0] > 0 else "descending" if d[0] == -1 else "descending-stepped"
    return "hand-picked" if all(x > 0 for x in d) else "hand-picked-unordered"


def gen_csv_case(rng) -> dict:
    db, base = rand_csv_db(rng)
    keys = [n for n, _ in db]
    names = None
    if rng.random() < 0.35:
        names = rng.sample(keys, rng.randint(1, len(keys)))
        if rng.random() < 0.3:
            names.append("nope")
        if rng.random() < 0.1:
            names.append(rng.choice(names))
        rng.shuffle(names)
    present = sorted({it["freq"] for _, it in db if it["k"] == "ser" and it["start"] is not None})
    q = rng.random()
    fspan = None          # default
    span = None
    if present and q < 0.2:
        f = rng.choice(present)
        span = [f, rand_periods(rng, base[f] - 6, base[f] + 10)]
        if not span[1]:
            span = None
    elif q < 0.45:
        fl = rng.sample(FREQ_LIST + [-1], rng.randint(1, 4))
        if present and rng.random() < 0.8 and present[0] not in fl:
            fl.append(present[0])
        rng.shuffle(fl)
        fspan = []
        for f in fl:
            if f == -1 or rng.random() < 0.5:
                fspan.append([f, None])
            else:
                fspan.append([f, rand_periods(rng, base[f] - 6, base[f] + 10) if rng.random() < 0.93 else []])
    return {"db": db, "base": base, "names": names, "span": span, "fspan": fspan,
            "desc": rng.random() < 0.5, "nan_str": rng.choice(NAN_STRS), "round": rng.choice(ROUNDS),
            "delim": rng.choice(DELIMS)}


_DEFAULT_ROUND = []


def default_round() -> int:
    """_DEFAULT_ROUND of databoxes/_exports.py as read by the translator (not through irispie)."""
    if not _DEFAULT_ROUND:
        _DEFAULT_ROUND.append(tr._exports()["round"])
    return _DEFAULT_ROUND[0]


def _round(x: float, r):
    if r == "default":
        r = default_round()
    return float(x) if r is None else float(np.round(np.float64(x), r))


def _tofloat(s: str) -> float:
    try:
        return float(s)
    except ValueError:
        return float("nan")


def csv_tables(case) -> dict:
    """The glue recorded from Python: period strings, rounding, float text."""
    from irispie.dates import Period, Frequency
    fmtp, parsep = [], []
    freqs = sorted({it["freq"] for _, it in case["db"] if it["k"] == "ser" and it["start"] is not None}
                   | ({case["span"][0]} if case["span"] else set())
                   | ({f for f, _ in case["fspan"]} if case["fspan"] else set()))
    need = {}
    for _, it in case["db"]:
        if it["k"] == "ser" and it["start"] is not None:
            need.setdefault(it["freq"], set()).update(range(it["start"], it["start"] + len(it["rows"])))
    if case["span"]:
        need.setdefault(case["span"][0], set()).update(case["span"][1])
    for f, l in (case["fspan"] or []):
        if l:
            need.setdefault(f, set()).update(l)
    for f in freqs:
        if f == -1 or f not in need:
            continue
        for t in range(min(need[f]), max(need[f]) + 1):
            s = str(sc.mk_period(f, t))
            fmtp.append((f, t, s))
            parsep.append((f, s, t))
    for f in set(freqs) | {-1}:
        try:
            with warnings.catch_warnings():
                warnings.simplefilter("ignore")
                p = Period.from_sdmx_string("", frequency=Frequency(f))
            parsep.append((f, "", int(getattr(p, "serial", 0) or 0)))
        except Exception:  # noqa
            pass
    vals = {}
    for _, it in case["db"]:
        if it["k"] == "ser":
            for row in it["rows"]:
                for x in row:
                    if x == x:
                        vals[float(x).hex()] = float(x)
    rnd = [(x, _round(x, case["round"])) for x in vals.values()]
    outs = {}
    for _, y in rnd:
        if y == y:
            outs[float(y).hex()] = y
    fmtv = [(y, repr(y)) for y in outs.values()]
    strs = {s for _, s in fmtv} | {case["nan_str"], ""}
    parsev = [(s, _tofloat(s)) for s in sorted(strs)]
    return {"fmtp": fmtp, "parsep": parsep, "rnd": rnd, "fmtv": fmtv, "parsev": parsev}


def c_tables(t) -> str:
    fmtp = coq_list([f"(({coq_z(f)}, {coq_z(s)}), {cstr(v)})" for f, s, v in t["fmtp"]])
    parsep = coq_list([f"(({coq_z(f)}, {cstr(s)}), {coq_z(v)})" for f, s, v in t["parsep"]])
    rnd = coq_list([f"({coq_float(a)}, {coq_float(b)})" for a, b in t["rnd"]])
    fmtv = coq_list([f"({coq_float(a)}, {cstr(b)})" for a, b in t["fmtv"]])
    parsev = coq_list([f"({cstr(a)}, {coq_float(b)})" for a, b in t["parsev"]])
    return f"(mkCt {fmtp}\n {parsep}\n {rnd}\n {fmtv}\n {parsev})"


def csv_kwargs(case) -> dict:
    from irispie.dates import Frequency
    kw = {"description_row": case["desc"], "nan_str": case["nan_str"], "delimiter": case["delim"]}
    if case["round"] != "default":
        kw["round"] = case["round"]
    if case["names"] is not None:
        kw["names"] = list(case["names"])
    if case["span"] is not None:
        kw["span"] = [sc.mk_period(case["span"][0], t) for t in case["span"][1]]
    if case["fspan"] is not None:
        kw["frequency_span"] = {Frequency(f): (... if l is None else tuple(sc.mk_period(f, t) for t in l))
                                for f, l in case["fspan"]}
    return kw


def read_grid(path, delim) -> list:
    with open(path, "rt", newline="", encoding="utf-8-sig") as fid:
        return [list(r) for r in csv.reader(fid, delimiter=delim)]


def run_csv(ctx, case, tag) -> tuple[dict, dict]:
    import irispie as ir
    path = str(ctx.work / f"sheet_{tag}.csv")
    db = mk_db(case["db"])
    try:
        with warnings.catch_warnings():
            warnings.simplefilter("ignore")
            db.to_csv_file(path, **csv_kwargs(case))
        grid = {"ok": read_grid(path, case["delim"])}
    except Exception as e:  # noqa
        return {"err": err_code(e), "exc": f"{type(e).__name__}: {e}"[:160]}, {"err": err_code(e)}
    return grid, run_import(path, case["desc"], case["delim"])


def run_import(path, desc, delim) -> dict:
    import irispie as ir
    try:
        with warnings.catch_warnings():
            warnings.simplefilter("ignore")
            back = ir.Databox.from_csv_file(path, description_row=desc, delimiter=delim)
        return {"ok": observe_db(back)}
    except Exception as e:  # noqa
        return {"err": err_code(e), "exc": f"{type(e).__name__}: {e}"[:160]}


def c_wopts(case) -> str:
    nms = "None" if case["names"] is None else f"(Some {c_strlist(case['names'])})"
    if case["span"] is not None:
        fs = coq_list([f"({coq_z(case['span'][0])}, Some {coq_list([coq_z(t) for t in case['span'][1]])})"])
    elif case["fspan"] is not None:
        fs = coq_list([f"({coq_z(f)}, " + ("None" if l is None else f"Some {coq_list([coq_z(t) for t in l])}") + ")"
                       for f, l in case["fspan"]])
    else:
        fs = "default_fspan"
    return f"(mkWopts {nms} {fs} {coq_bool(case['desc'])} {cstr(case['nan_str'])})"


def c_grid(g) -> str:
    return coq_list([c_strlist(r) for r in g], sep=";\n     ")


def c_csv_case(case, grid, imp) -> str:
    if "err" in grid:
        return "  9%nat"       # the export itself raised: reported by the harness, nothing to evaluate
    return (f"  check_csv tb {c_tables(csv_tables(case))}\n    {c_db(case['db'])}\n    {c_wopts(case)}\n"
            f"    {c_grid(grid['ok'])}\n    {c_res_db(imp)}")


def csv_shard(items) -> str:
    return (HEADER + "Definition codes : list nat := [\n" + ";\n".join(c_csv_case(*it) for it in items) + "\n].\n"
            + "Eval vm_compute in (failing_codes codes 0).\n")


# ---- import of sheets that are not the image of an export (mutated sheets) ----

def mutate_grid(rng, grid, desc) -> list:
    g = [list(r) for r in grid]
    nh = 1 + int(desc)
    if len(g) <= nh or not g[0]:
        return g
    for _ in range(rng.randint(1, 3)):
        q = rng.random()
        marks = [c for c, x in enumerate(g[0]) if x.startswith("__")]
        if q < 0.3 and marks:                  # blank a date cell: the row is skipped for that block
            c = rng.choice(marks)
            r = rng.randrange(nh, len(g))
            g[r][c] = ""
        elif q < 0.5 and marks:                # short / differently cased frequency mark
            c = rng.choice(marks)
            letter = g[0][c].strip("_")[:1]
            g[0][c] = rng.choice(["__" + letter, "__" + letter.upper(), "__" + letter + "_x", "__" + letter.upper() + "__"])
        elif q < 0.65:                         # a header cell becomes empty / a continuation / a block end
            c = rng.randrange(len(g[0]))
            if not g[0][c].startswith("__"):
                g[0][c] = rng.choice(["", "*", "__", "renamed"])
        elif q < 0.8:                          # a foreign column in front
            for i, r in enumerate(g):
                r.insert(0, "note" if i == 0 else "")
        elif q < 0.9:                          # duplicate name across the sheet
            names = [x for x in g[0] if x and x != "*" and not x.startswith("__")]
            cells = [c for c, x in enumerate(g[0]) if x and x != "*" and not x.startswith("__")]
            if len(names) >= 2:
                g[0][cells[-1]] = names[0]
        else:                                   # drop the last data row
            if len(g) > nh + 1:
                g.pop()
    return g


def c_import_case(case, grid, imp) -> str:
    t = csv_tables(case)
    return (f"  check_import tb {c_tables(t)} {coq_bool(case['desc'])}\n    {c_grid(grid)}\n    {c_res_db(imp)}")


def import_shard(items) -> str:
    return (HEADER + "Definition codes : list nat := [\n" + ";\n".join(c_import_case(*it) for it in items) + "\n].\n"
            + "Eval vm_compute in (failing_codes codes 0).\n")


# ====================================================================== correspondence

def _bump(d, k):
    d[k] = d.get(k, 0) + 1


def _parse_codes(out: str):
    bodies = core.parse_eval_lists(out)
    if len(bodies) != 1:
        return None
    import re
    return [(int(a), int(b)) for a, b in re.findall(r"\((\d+)(?:%nat)?,\s*(\d+)(?:%nat)?\)", bodies[0])]


def correspondence(ctx) -> CorrResult:
    rng = ctx.rng
    res = CorrResult()
    ctx.work.mkdir(parents=True, exist_ok=True)
    import os
    dev = float(os.environ.get("C19_DEV_SCALE", "1"))
    n_csv = max(1, int(dev * ctx.scale(160, 4000)))
    n_imp = max(1, int(dev * ctx.scale(60, 1500)))
    n_slate = max(1, int(dev * ctx.scale(200, 5000)))
    n_hist = max(1, int(dev * ctx.scale(130, 3200)))
    n_sops = max(1, int(dev * ctx.scale(160, 4000)))
    nops = 8
    dist = {"csv": {"delimiter": {}, "round": {}, "nan_str": {}, "blocks": {}, "options": {}, "import_errors": {}},
            "slate": {"errors": {}, "variants": {}, "with_fallbacks": 0, "with_overwrites": 0, "clip_to_base": 0},
            "slate_methods": {"method": {}, "errors": {}, "base_conversion": {}},
            "ops": {"kind": {}, "errors": {}, "steps": 0},
            "mutated_import": {"errors": {}}}
    shards, meta = [], []      # meta[k] = (kind, items)
    nontrivial = set()

    # ---- CSV export / import
    csv_items = []
    for i in range(n_csv):
        case = gen_csv_case(rng)
        grid, imp = run_csv(ctx, case, "x")
        csv_items.append((case, grid, imp))
        d = dist["csv"]
        _bump(d["delimiter"], repr(case["delim"])); _bump(d["round"], str(case["round"])); _bump(d["nan_str"], repr(case["nan_str"]))
        _bump(d["options"], "names" if case["names"] is not None else "all-names")
        _bump(d["options"], "span" if case["span"] else "frequency_span" if case["fspan"] else "default-span")
        _bump(d["options"], "description_row" if case["desc"] else "no-description_row")
        for l_ in ([case["span"][1]] if case["span"] else [l_ for _, l_ in (case["fspan"] or []) if l_ is not None]):
            _bump(d.setdefault("selected_periods", {}), _periods_shape(l_))
        ne = sum(1 for _, it_ in case["db"] if it_["k"] == "ser" and it_["start"] is None)
        nd = sum(1 for _, it_ in case["db"] if it_["k"] == "ser" and it_["start"] is not None)
        _bump(d.setdefault("empty_series", {}), "none" if not ne else "only-empty-series" if not nd else "with-empty-series")
        if "ok" in grid:
            nb = sum(1 for c in (grid["ok"][0] if grid["ok"] else []) if c.startswith("__"))
            _bump(d["blocks"], str(nb))
            if nb >= 1 and "ok" in imp and len(grid["ok"]) > 2:
                nontrivial.add("csv:" + repr(grid["ok"]))
        if "err" in imp:
            _bump(d["import_errors"], imp.get("exc", "?").split(":")[0])
        if "err" in grid:
            res.disagreements.append(Disagreement("csv:export raises", _csv_input(case), "a grid", grid.get("exc")))
    per = 40
    for i in range(0, len(csv_items), per):
        shards.append(csv_shard(csv_items[i:i + per])); meta.append(("csv", csv_items[i:i + per]))

    # ---- import of mutated sheets
    imp_items = []
    tries = 0
    while len(imp_items) < n_imp and tries < 4 * n_imp:
        tries += 1
        case, grid, imp = csv_items[rng.randrange(len(csv_items))]
        if "err" in grid or not grid["ok"]:
            continue
        try:
            g2 = mutate_grid(rng, grid["ok"], case["desc"])
        except IndexError:          # a ragged sheet (only after a defect in the export): nothing to mutate
            continue
        path = str(ctx.work / "sheet_m.csv")
        with open(path, "w", newline="") as fid:
            csv.writer(fid, delimiter=case["delim"], lineterminator="\n").writerows(g2)
        out = run_import(path, case["desc"], case["delim"])
        if "ok" in out and not representable(out["ok"]):
            continue
        if "err" in out:
            _bump(dist["mutated_import"]["errors"], out.get("exc", "?").split(":")[0])
            if out["err"] == 9 or "columns instead of" in out.get("exc", ""):
                continue          # genfromtxt / csv-level failure outside the grid model
        imp_items.append((case, g2, out))
        if "ok" in out and out["ok"]:
            nontrivial.add("imp:" + repr(g2))
    per = 60
    for i in range(0, len(imp_items), per):
        shards.append(import_shard(imp_items[i:i + per])); meta.append(("import", imp_items[i:i + per]))

    # ---- dataslates
    sl_items = []
    for i in range(n_slate):
        case = gen_slate_case(rng)
        sl, back = run_slate(case)
        sl_items.append((case, sl, back))
        d = dist["slate"]
        _bump(d["variants"], str(case["nvar"]))
        d["with_fallbacks"] += bool(case["fallbacks"]); d["with_overwrites"] += bool(case["overwrites"])
        d["clip_to_base"] += bool(case["clip"])
        if "err" in sl:
            _bump(d["errors"], sl.get("exc", "?").split(":")[0])
        elif sl["ok"] and sl["ok"][0]:
            nontrivial.add("slate:" + repr((case["db"], case["names"], case["from"], case["n"], case["nvar"])))
    per = 100
    for i in range(0, len(sl_items), per):
        shards.append(slate_shard(sl_items[i:i + per])); meta.append(("slate", sl_items[i:i + per]))

    # ---- dataslates as objects: span-changing methods, then both conversions
    so_items = []
    for i in range(n_sops):
        case = gen_slate_ops_case(rng)
        st, full, base = run_slate_ops(case)
        so_items.append((case, st, full, base))
        d = dist["slate_methods"]
        for op in case["ops"]:
            _bump(d["method"], op[0])
        if "err" in st:
            _bump(d["errors"], st.get("exc", "?").split(":")[0])
        else:
            _bump(d["base_conversion"], "ok" if "ok" in base else "raises")
            if case["ops"] and "ok" in base and base["ok"]:
                nontrivial.add("sops:" + repr((case["db"], case["names"], case["from"], case["n"], case["base"], case["ops"])))
    per = 80
    for i in range(0, len(so_items), per):
        shards.append(slate_ops_shard(so_items[i:i + per])); meta.append(("slate_methods", so_items[i:i + per]))

    # ---- operation histories
    hs = []
    for i in range(n_hist):
        h = gen_history(rng, nops)
        hs.append(h)
        for op, o in zip(h["ops"], h["outs"]):
            _bump(dist["ops"]["kind"], op["op"] if op["op"] != "lay" else ("underlay" if op["under"] else "overlay"))
            dist["ops"]["steps"] += 1
            if "err" in o:
                _bump(dist["ops"]["errors"], o.get("exc", "?").split(":")[0])
        if len(h["ops"]) >= 3:
            nontrivial.add("ops:" + repr(h["ops"]))
    per = 26
    for i in range(0, len(hs), per):
        shards.append(ops_shard(hs[i:i + per])); meta.append(("ops", hs[i:i + per]))

    # ---- round 6: the target databox after merge with a reporting strategy (returned or raised)
    n_m6 = max(1, int(dev * ctx.scale(240, 5000)))
    m6 = []
    dist["merge_report"] = {"strategy": {}, "outcome": {}, "databoxes": {}}
    for i in range(n_m6):
        c = gen_merge_report_case(rng)
        if not (representable(c["after"]) and representable(c["t_obs"]) and all(representable(o) for o in c["o_obs"])):
            continue
        m6.append(c)
        _bump(dist["merge_report"]["strategy"], c["strategy"])
        _bump(dist["merge_report"]["databoxes"], str(len(c["others"])))
        grew = len(c["after"]) > len(c["t_obs"])
        _bump(dist["merge_report"]["outcome"], ("raised" if c["raised"] else "returned") + (", target grew" if grew else ", target unchanged"))
        if sum(len(o) for o in c["others"]) >= 2:
            nontrivial.add("merge6:" + repr((c["target"], c["others"], c["strategy"])))
    per = 120
    for i in range(0, len(m6), per):
        shards.append(merge6_shard(m6[i:i + per])); meta.append(("merge_report", m6[i:i + per]))

    res.evaluations = len(csv_items) + len(imp_items) + len(sl_items) + len(so_items) + dist["ops"]["steps"] + len(m6)
    res.distinct_nontrivial = len(nontrivial)
    res.distribution = dist
    res.rule = ("csv: a random databox (series of 1-6 frequencies incl. integer and daily, 1-3 variants, interior missing "
                "values, descriptions, scalars, lists, empty series) written by Databox.to_csv_file with random names / "
                "span / frequency_span / description_row / nan_str / round / delimiter; the file read back with the csv "
                "module is compared cell by cell with the model's grid, and Databox.from_csv_file(file) with the model's "
                "import; mutated sheets are imported by both sides. slate: Dataslate.from_databox(...).to_databox() with "
                "random names, span, variants, fallbacks, overwrites, base columns; arrays and the written databox are "
                "compared; slate methods: the same followed by 0-3 of remove_periods_from_start / _from_end, add_periods_to_end, "
                "remove_initial, remove_terminal, rename, base_periods=..., then names, periods, base periods, arrays and "
                "to_databox(span=full|base) are compared. ops: histories of up to 8 databox operations over 3 databoxes with random name selections "
                "(lists, single names, predicates, renaming functions; merge of 1-3 databoxes in one call, all strategies), "
                "the destination databox compared after every step and every databox of the session after the history. "
                "merge_report: self.merge(1-4 databoxes, silent|warning|error|critical); the TARGET databox after the call "
                "returned or raised and whether it raised are compared with model/Merge6.v: merge_report_state. "
                "csv databoxes include sheets of empty series only (no data rows). non-trivial = at least one block and 2 data rows / a non-empty slate / 3+ executed operations; "
                "distinct = distinct case text")
    res.samples = [
        {"csv_case": _csv_input(csv_items[0][0]), "grid": csv_items[0][1].get("ok", [])[:4]},
        {"slate_case": {k: v for k, v in sl_items[0][0].items() if k != "db"}},
        {"ops": hs[0]["ops"][:4]},
    ]
    results = core.run_cases(ctx, shards)
    res.shards = len(shards)
    for k, (ok, out) in enumerate(results):
        kind, items = meta[k]
        if not ok:
            res.disagreements.append(Disagreement(f"{kind} shard {k} does not evaluate", None, out[-800:], None))
            continue
        codes = _parse_codes(out)
        if codes is None:
            res.disagreements.append(Disagreement(f"{kind} shard {k}: unparsable output", None, out[-600:], None))
            continue
        for i, code in codes:
            res.disagreements.append(_disagreement(kind, items[i], code))
    return res


def _csv_input(case) -> dict:
    return {k: case[k] for k in ("db", "names", "span", "fspan", "desc", "nan_str", "round", "delim")}


def _disagreement(kind, item, code) -> Disagreement:
    if kind == "csv":
        case, grid, imp = item
        if code == 9:
            return Disagreement("csv:export raises", _csv_input(case), "a grid", grid.get("exc"))
        where = "csv:grid" if code == 1 else "csv:import"
        return Disagreement(where, _csv_input(case), "model differs", grid.get("ok") if code == 1 else imp)
    if kind == "import":
        case, grid, imp = item
        return Disagreement("csv:import-of-sheet", {"grid": grid, "desc": case["desc"], "delim": case["delim"]},
                            "model differs", imp)
    if kind == "slate":
        case, sl, back = item
        return Disagreement("slate:arrays" if code == 1 else "slate:to_databox", case, "model differs",
                            sl if code == 1 else back)
    if kind == "slate_methods":
        case, st, full, base = item
        where = {1: "slate:state-after-methods", 2: "slate:to_databox(full)-after-methods",
                 3: "slate:to_databox(base)-after-methods"}.get(code, "slate:methods")
        return Disagreement(where, case, "model differs", {1: st, 2: full, 3: base}.get(code))
    if kind == "merge_report":
        c = item
        return Disagreement("merge:target-after-call" if code == 1 else "merge:raises",
                            {"self": c["target"], "others": c["others"], "strategy": c["strategy"]},
                            "model differs", {"raised": c["raised"], "target_after": c["after"]})
    h = item
    if code == 1000:
        return Disagreement("ops:session-state", {"init": h["init"], "ops": h["ops"]},
                            "every databox of the session after the history (value semantics: only the destination of an "
                            "operation changes)", h.get("finals"))
    step = code - 1
    op = h["ops"][step] if step < len(h["ops"]) else None
    return Disagreement(f"ops:{op['op'] if op else '?'}", {"init": h["init"], "ops": h["ops"][:step + 1]},
                        "model differs at step %d" % step, h["outs"][step] if step < len(h["outs"]) else None)


# ====================================================================== falsifier: the property on the public API

def _same_values(a, b, tol=0.0) -> bool:
    a = np.asarray(a, dtype=float); b = np.asarray(b, dtype=float)
    if a.shape != b.shape:
        return False
    both_nan = np.isnan(a) & np.isnan(b)
    with np.errstate(all="ignore"):
        eq = (a == b) | (np.abs(a - b) <= tol)
    return bool(np.all(eq | both_nan))


def _plain_db(rng, nfreq=None) -> list:
    """Series only, ordinary names, trimmed: the inputs the property is clearly about."""
    freqs = rng.sample(FREQ_LIST, nfreq or rng.choice([1, 2, 3, 5, 6]))
    base = {f: base_start(rng, f) for f in FREQ_LIST}
    names = rng.sample(NAME_POOL, rng.randint(1, 8))
    return [[n, rand_series(rng, f, rng.choice([1, 2, 3]), base[f] + rng.randint(-3, 5), maxlen=8,
                            desc=rng.choice(["", "Some description", "with, comma", "semi; colon"]))]
            for n in names for f in [rng.choice(freqs)]]


def falsify(ctx, hints):
    import irispie as ir
    from irispie.dataslates.main import Dataslate
    rng = ctx.rng
    ctx.work.mkdir(parents=True, exist_ok=True)
    fails: list[Failure] = []
    info = {"csv_roundtrips": 0, "slate_roundtrips": 0, "frame_checks": 0}

    def add(key, what, inp, observed=None, required=None, repro=""):
        if all(f.key != key for f in fails):
            fails.append(Failure(key, what, inp, observed, required, repro))

    # 1. CSV round trip on the public API
    path = str(ctx.work / "falsify.csv")

    def csv_check(inp):
        """None when the round trip is lossless, else (key suffix, what, observed, required)."""
        delim, rnd, desc, nan_str = inp["delimiter"], inp["round"], inp["description_row"], inp["nan_str"]
        try:
            db = mk_db(inp["db"])
            with warnings.catch_warnings():
                warnings.simplefilter("ignore")
                db.to_csv_file(path, delimiter=delim, round=rnd, description_row=desc, nan_str=nan_str)
                back = ir.Databox.from_csv_file(path, delimiter=delim, description_row=desc)
        except Exception as e:  # noqa
            return ("roundtrip-raises", f"CSV round trip raises {type(e).__name__}: {e}"[:200],
                    f"{type(e).__name__}: {e}"[:200], "the databox read back")
        if sorted(back.keys()) != sorted(db.keys()):
            return ("names", "names differ after the CSV round trip", sorted(back.keys()), sorted(db.keys()))
        for name in db.keys():
            x, y = db[name], back[name]
            want = x.data if rnd is None else np.round(x.data, rnd)
            if y.frequency != x.frequency or y.start != x.start or y.data.shape != x.data.shape:
                return ("span", f"frequency/span/variants of {name!r} differ after the CSV round trip",
                        [str(y.frequency), str(y.start), list(y.data.shape)],
                        [str(x.frequency), str(x.start), list(x.data.shape)])
            if not _same_values(y.data, want):
                return ("values", f"values of {name!r} differ after the CSV round trip", y.data.tolist(), want.tolist())
            if desc and y.get_description() != x.get_description():
                return ("description", f"description of {name!r} differs after the CSV round trip",
                        y.get_description(), x.get_description())
        return None

    def csv_shrink(inp, kind):
        """Greedy reduction of a failing input (fewer series, fewer rows, plainer options), same failure kind."""
        def still(c):
            r = csv_check(c)
            return r is not None and r[0] == kind
        cur = dict(inp)
        changed = True
        while changed:
            changed = False
            for i in range(len(cur["db"])):
                if len(cur["db"]) > 1:
                    c = dict(cur, db=cur["db"][:i] + cur["db"][i + 1:])
                    if still(c):
                        cur, changed = c, True
                        break
            else:
                for i, (nm, it) in enumerate(cur["db"]):
                    if len(it["rows"]) > 1:
                        it2 = dict(it, rows=it["rows"][:-1])
                        if all(v != v for v in it2["rows"][-1]):
                            continue
                        c = dict(cur, db=cur["db"][:i] + [[nm, it2]] + cur["db"][i + 1:])
                        if still(c):
                            cur, changed = c, True
                            break
        for k, v in (("description_row", False), ("nan_str", ""), ("round", 12)):
            c = dict(cur, **{k: v})
            if cur[k] != v and still(c):
                cur = c
        return cur

    n = ctx.scale(80, 1500)
    for it in range(n):
        inp = {"db": _plain_db(rng), "delimiter": rng.choice([",", ",", ";", "\t", "|"]), "round": rng.choice([12, 12, None, 3]),
               "description_row": rng.random() < 0.5, "nan_str": rng.choice(["", "NaN", "NA"])}
        dkey = "comma" if inp["delimiter"] == "," else "other-delimiter"
        r = csv_check(inp)
        info["csv_roundtrips"] += 1
        if r is None or any(f.key == f"csv:{r[0]}:{dkey}" for f in fails):
            continue
        small = csv_shrink(inp, r[0])
        r = csv_check(small) or r
        repro = (f"db.to_csv_file(f, delimiter={small['delimiter']!r}, round={small['round']}, "
                 f"description_row={small['description_row']}, nan_str={small['nan_str']!r}); "
                 f"Databox.from_csv_file(f, delimiter={small['delimiter']!r}, description_row={small['description_row']})")
        add(f"csv:{r[0]}:{dkey}", r[1], small, r[2], r[3], repro)
        if len(fails) > 12:
            break

    # 2. dataslate round trip
    n = ctx.scale(120, 2500)
    for it in range(n):
        f = rng.choice(FREQ_LIST)
        base = base_start(rng, f)
        names = rng.sample(NAME_POOL, rng.randint(1, 6))
        spec = [[nm, rand_series(rng, f, rng.choice([1, 2, 3]), base + rng.randint(-3, 5), maxlen=8)] for nm in names]
        frm = base + rng.randint(-5, 5)
        npd = rng.randint(1, 9)
        nvar = rng.choice([1, 2, 3, 4])
        sel = rng.sample(names, rng.randint(1, len(names))) + (["absent"] if rng.random() < 0.3 else [])
        def _decl(p):
            # a declared fallback / overwrite: one number, or one number per variant (consumed exhaust-then-last)
            return {nm: (rand_value(rng) if rng.random() < 0.6 else [rand_value(rng) for _ in range(rng.randint(1, 3))])
                    for nm in sel if rng.random() < p}
        fb = _decl(0.35)
        ow = _decl(0.2)
        # base span: a contiguous block of columns inside the dataslate span; with clip_data_to_base_span=True the
        # input data outside it is cleared (before the declared fallbacks and overwrites are applied)
        clip = rng.random() < 0.5
        base_cols = None
        if rng.random() < 0.6:
            a = rng.randint(0, npd - 1)
            base_cols = list(range(a, rng.randint(a, npd - 1) + 1))
        inp = {"db": spec, "names": sel, "freq": f, "from": frm, "periods": npd, "num_variants": nvar, "fallbacks": fb,
               "overwrites": ow, "clip_data_to_base_span": clip, "base_columns": base_cols}
        repro = ("Dataslate.from_databox(db, names, span, num_variants=nvar, fallbacks=fb, overwrites=ow, "
                 "clip_data_to_base_span=clip, base_columns=base_columns).to_databox(trim=False)")
        try:
            db = mk_db(spec)
            span = ir.Span(sc.mk_period(f, frm), sc.mk_period(f, frm + npd - 1))
            kw = {} if base_cols is None else {"base_columns": tuple(base_cols)}
            ds = Dataslate.from_databox(db, sel, span, num_variants=nvar, fallbacks=fb or None, overwrites=ow or None,
                                        clip_data_to_base_span=clip, **kw)
            back = ds.to_databox(trim=False)
            info["slate_roundtrips"] += 1
        except Exception as e:  # noqa
            add("slate:raises", f"dataslate round trip raises {type(e).__name__}: {e}"[:200], inp, repr(e)[:200], None, repro)
            continue

        def _at(v, k):
            return v[min(k, len(v) - 1)] if isinstance(v, list) else v
        for nm in sel:
            want = np.full((npd, nvar), np.nan)
            if nm in db:
                x = db[nm]
                for k in range(nvar):
                    want[:, k] = x.get_data(span, min(k, x.num_variants - 1)).reshape(-1)
            if clip:
                outside = [c for c in range(npd) if c not in (base_cols or [])]
                want[outside, :] = np.nan
            for k in range(nvar):
                if nm in fb:
                    col = want[:, k]
                    col[np.isnan(col)] = _at(fb[nm], k)
                if nm in ow:
                    want[:, k] = _at(ow[nm], k)
            y = back[nm]
            got = y.get_data(span)
            outside_ok = (y.start is None) or (y.start >= span.start and y.end <= span.end)
            if not _same_values(got, want) or not outside_ok:
                key = "slate:values:clip-to-base-span" if clip else "slate:values"
                add(key, f"values of {nm!r} differ after databox -> dataslate -> databox", inp, got.tolist(),
                    want.tolist(), repro)
        if len(fails) > 12:
            break

    # 2b. the dataslate as an object: built on an extended span with declared base columns, periods removed from the
    #     start / end (remove_initial, remove_terminal, remove_periods_from_*), then converted back on the base span and
    #     on the remaining span: the input values on those periods, nothing else
    n = ctx.scale(120, 2500)
    info["slate_method_checks"] = 0
    for it in range(n):
        f = rng.choice(FREQ_LIST)
        base = base_start(rng, f)
        names = rng.sample(NAME_POOL, rng.randint(1, 4))
        spec = [[nm, rand_series(rng, f, rng.choice([1, 2, 3]), base + rng.randint(-2, 3), maxlen=10)] for nm in names]
        frm = base + rng.randint(-3, 2)
        npd = rng.randint(2, 10)
        nvar = rng.choice([1, 2, 3])
        a = rng.randint(0, npd - 1)
        b = rng.randint(a, npd - 1)
        mms = (-a, npd - 1 - b)
        steps = []
        cut_start, cut_end = 0, 0
        for _ in range(rng.choice([1, 1, 2, 3])):
            q = rng.random()
            if q < 0.3 and cut_start == 0:
                steps.append(["remove_initial"]); cut_start += a
            elif q < 0.55:
                k = rng.choice([a - cut_start, rng.randint(0, a - cut_start)])
                steps.append(["remove_start", k]); cut_start += k
            elif q < 0.7 and cut_end == 0:
                steps.append(["remove_terminal"]); cut_end += npd - 1 - b
            elif q < 0.85:
                k = rng.randint(0, npd - 1 - b - cut_end)
                steps.append(["remove_end", k]); cut_end += k
            else:
                steps.append(["copy"])
        inp = {"db": spec, "freq": f, "from": frm, "periods": npd, "num_variants": nvar, "base_columns": [a, b],
               "min_max_shift": list(mms), "methods": steps}
        repro = ("ds = Dataslate.from_databox(db, names, span, num_variants=nvar, base_columns=range(a, b+1), "
                 "min_max_shift=(-a, n-1-b)); <methods>; ds.to_databox(span='base', trim=False)")
        try:
            db = mk_db(spec)
            span = ir.Span(sc.mk_period(f, frm), sc.mk_period(f, frm + npd - 1))
            ds = Dataslate.from_databox(db, names, span, num_variants=nvar, base_columns=tuple(range(a, b + 1)),
                                        min_max_shift=mms)
            for st_ in steps:
                if st_[0] == "copy":
                    ds = ds.copy()
                else:
                    apply_slate_op(ds, st_, f)
            got_base_periods = [int(p.serial) for p in ds.base_periods]
            got_periods = [int(p.serial) for p in ds.periods]
            back_base = ds.to_databox(span="base", trim=False)
            back_full = ds.to_databox(span="full", trim=False)
            info["slate_method_checks"] += 1
        except Exception as e:  # noqa
            add("slate:methods:raises", f"dataslate method sequence raises {type(e).__name__}: {e}"[:200], inp, repr(e)[:200],
                None, repro)
            continue
        want_base_periods = list(range(frm + a, frm + b + 1))
        want_periods = list(range(frm + cut_start, frm + npd - cut_end))
        if got_base_periods != want_base_periods or got_periods != want_periods:
            add("slate:methods:periods", "periods / base periods are wrong after removing initial or terminal periods", inp,
                {"periods": got_periods, "base_periods": got_base_periods},
                {"periods": want_periods, "base_periods": want_base_periods}, repro)
            continue
        for mode, back, lo, hi in (("base", back_base, frm + a, frm + b),
                                   ("full", back_full, frm + cut_start, frm + npd - 1 - cut_end)):
            sp = ir.Span(sc.mk_period(f, lo), sc.mk_period(f, hi))
            for nm in names:
                x, y = db[nm], back[nm]
                want = np.column_stack([x.get_data(sp, min(k, x.num_variants - 1)).reshape(-1) for k in range(nvar)])
                ok = (y.start is not None and int(y.start.serial) == lo and y.data.shape == want.shape
                      and _same_values(y.data, want))
                if not ok:
                    add(f"slate:methods:to_databox-{mode}",
                        f"to_databox(span={mode!r}) of {nm!r} is not the input on the {mode} span after the methods", inp,
                        {"start": None if y.start is None else int(y.start.serial), "data": y.data.tolist()},
                        {"start": lo, "data": want.tolist()}, repro)
        if len(fails) > 12:
            break

    # 3. databox operations: unselected names untouched, selected ones get the series / dict semantics
    n = ctx.scale(150, 3000)
    for it in range(n):
        w = World(rng, nfreq=2)
        sa, sb = w.databox(0.6), w.databox(0.6)
        A, B = mk_db(sa), mk_db(sb)
        before = dict(observe_db(A))
        order_before = list(A.keys())
        op = rng.choice(["remove", "keep", "rename", "rename", "overlay", "underlay", "clip", "merge", "copy", "copy", "prepend",
                         "empty-selection", "empty-selection"])
        inp = {"self": sa, "other": sb, "op": op}
        info["frame_checks"] += 1
        try:
            with warnings.catch_warnings():
                warnings.simplefilter("ignore")
                if op == "remove":
                    l = rng.sample(order_before, min(2, len(order_before))) + ["absent"]
                    inp["names"] = l
                    A.remove(l)
                    after = dict(observe_db(A))
                    want = {k: v for k, v in before.items() if k not in l}
                elif op == "keep":
                    l = rng.sample(order_before, min(2, len(order_before))) + ["absent"]
                    inp["names"] = l
                    A.keep(l)
                    after = dict(observe_db(A))
                    want = {k: v for k, v in before.items() if k in l}
                elif op == "empty-selection":
                    # a selection that resolves to no name at all: keep -> nothing left, copy -> empty databox,
                    # remove / rename -> nothing changes
                    how = rng.choice(["empty-list", "empty-tuple", "absent-names", "predicate"])
                    sel_ = {"empty-list": [], "empty-tuple": (), "absent-names": ["absent", "missing"],
                            "predicate": (lambda nm: False)}[how]
                    method = rng.choice(["keep", "keep", "copy", "copy", "remove", "rename"])
                    inp["selection"], inp["method"] = how, method
                    op = f"{method}:empty-selection"
                    if method == "keep":
                        A.keep(sel_)
                        after, want = dict(observe_db(A)), {}
                    elif method == "copy":
                        tgt_ = rng.choice([None, None, (lambda nm: "c_" + nm)]) if how != "absent-names" else rng.choice([None, ["x", "y"]])
                        C = A.copy(sel_, tgt_)
                        after, want = dict(observe_db(C)), {}
                        if not _obs_equal_db(dict(observe_db(A)), before):
                            add("ops:copy-modifies-source", "copy modified its source", inp)
                    elif method == "remove":
                        A.remove(sel_)
                        after, want = dict(observe_db(A)), dict(before)
                    else:
                        A.rename(sel_, (lambda nm: "r_" + nm))
                        after, want = dict(observe_db(A)), dict(before)
                elif op in ("rename", "copy"):
                    l = rng.sample(order_before, min(3, len(order_before)))
                    if rng.random() < 0.6:
                        # an explicit target list; a source name that is absent is dropped together with its own target
                        for _ in range(rng.randint(0, 2)):
                            l.insert(rng.randint(0, len(l)), rng.choice(["absent", "missing"]))
                        tg = [f"t{i}_{nm}" for i, nm in enumerate(l)]
                        inp["names"], inp["targets"] = list(l), list(tg)
                        arg = list(tg)
                        ren = {s_: t_ for s_, t_ in zip(l, tg) if s_ in before}
                    else:
                        inp["names"], inp["targets"] = list(l), "lambda n: 'new_' + n"
                        arg = lambda nm: "new_" + nm     # noqa
                        ren = {k: "new_" + k for k in l}
                    if op == "rename":
                        A.rename(list(l), arg)
                        after = dict(observe_db(A))
                        want = {ren.get(k, k): v for k, v in before.items()}
                    else:
                        C = A.copy(list(l), arg)
                        after = dict(observe_db(C))
                        want = {t_: before[s_] for s_, t_ in ren.items()}
                        if not _obs_equal_db(dict(observe_db(A)), before):
                            add("ops:copy-modifies-source", "copy modified its source", inp)
                elif op in ("overlay", "underlay", "prepend"):
                    Bc = B.copy()
                    if op == "prepend":
                        f = w.freqs[0]
                        e = w.base[f] + rng.randint(-2, 6)
                        inp["end"] = [f, e]
                        A.prepend(B, sc.mk_period(f, e))
                        Bc.clip(None, sc.mk_period(f, e))
                    else:
                        getattr(A, op)(B)
                    after = dict(observe_db(A))
                    want = {}
                    for k, v in before.items():
                        x, y = mk_item(_spec_of(sa, k)), Bc.get(k)
                        if (isinstance(x, ir.Series) and isinstance(y, ir.Series) and x.frequency == y.frequency
                                and x.frequency != ir.Frequency.UNKNOWN
                                and (x.num_variants == y.num_variants or 1 in (x.num_variants, y.num_variants))):
                            (x.overlay if op == "overlay" else x.underlay)(y)
                            want[k] = observe_item(x)
                        elif isinstance(x, ir.Series) and isinstance(y, ir.Series) and x.frequency == y.frequency \
                                and x.frequency != ir.Frequency.UNKNOWN:
                            want = None
                            break
                        else:
                            want[k] = v
                elif op == "clip":
                    f = w.freqs[0]
                    a, b = w.base[f] + rng.randint(-2, 3), w.base[f] + rng.randint(3, 8)
                    inp["clip"] = [f, a, b]
                    A.clip(sc.mk_period(f, a), sc.mk_period(f, b))
                    after = dict(observe_db(A))
                    want = {}
                    for k, v in before.items():
                        x = mk_item(_spec_of(sa, k))
                        if isinstance(x, ir.Series) and int(x.frequency) == f:
                            x.clip(sc.mk_period(f, a), sc.mk_period(f, b))
                            want[k] = observe_item(x)
                        else:
                            want[k] = v
                else:
                    strategy = rng.choice(["replace", "discard"])
                    inp["strategy"] = strategy
                    A.merge(B.copy(), strategy)
                    after = dict(observe_db(A))
                    ob = dict(observe_db(B))
                    want = dict(before)
                    for k, v in ob.items():
                        if k not in want or strategy == "replace":
                            want[k] = v
        except Exception as e:  # noqa
            if op in ("overlay", "underlay", "prepend") and type(e).__name__ == "IrisPieError":
                continue                    # incompatible variant counts
            add(f"ops:{op}:raises", f"Databox.{op} raises {type(e).__name__}: {e}"[:200], inp, repr(e)[:200])
            continue
        if want is None:
            continue
        if not _obs_equal_db(after, want):
            add(f"ops:{op}", f"Databox.{op} does not apply the series/dict semantics to exactly the selected names",
                inp, _diff_names(after, want), "selected names changed as specified, all others untouched")
        if len(fails) > 12:
            break

    _falsify_round4(ctx, rng, add, info, fails)
    _falsify_round5(ctx, rng, add, info, fails)
    return fails, info


# ---------------------------------------------------------------------- round 4: sessions, several databoxes, empty series

_SEL_KINDS = ["all", "list", "list", "str", "pred", "pred"]
_TGT_KINDS = ["same", "same", "list", "fun", "fun"]
_LATER_OPS = ["clip", "clip", "overlay", "underlay", "prepend", "merge-stack", "merge-replace", "rename", "remove", "keep"]


def _f_selection(rng, keys):
    """(python source selection, python target, JSON description, expected {target: source}) for Databox.copy."""
    sk = rng.choice(_SEL_KINDS) if keys else "all"
    if sk == "all":
        src, sel, sdesc = list(keys), None, "None"
    elif sk == "list":
        src = rng.sample(keys, rng.randint(1, min(4, len(keys))))
        sel, sdesc = list(src), list(src)
    elif sk == "str":
        src = [rng.choice(keys)]
        sel, sdesc = src[0], src[0]
    else:
        c = rng.choice(keys)[0]
        src = [k for k in keys if k.startswith(c)]
        sel, sdesc = (lambda nm, c=c: nm.startswith(c)), f"lambda n: n.startswith({c!r})"
    tk = rng.choice(_TGT_KINDS)
    if tk == "same":
        tgt, tdesc, names = None, "None", {k: k for k in src}
    elif tk == "list" and sk != "str":
        tl = [f"t{i}_{k}" for i, k in enumerate(src)]
        tgt, tdesc, names = list(tl), list(tl), dict(zip(tl, src))
    else:
        pre = rng.choice(["c_", "new_", "z"])
        tgt, tdesc, names = (lambda nm, pre=pre: pre + nm), f"lambda n: {pre!r} + n", {pre + k: k for k in src}
    return sel, tgt, {"source_names": sdesc, "target_names": tdesc}, names


def _f_later_op(rng, w, D, other_spec):
    """One in-place databox operation on D; returns its JSON description."""
    op = rng.choice(_LATER_OPS)
    keys = list(D.keys())
    f = rng.choice(w.freqs)
    if op == "clip":
        a, b = w.base[f] + rng.randint(-1, 3), w.base[f] + rng.randint(2, 5)
        D.clip(sc.mk_period(f, a), sc.mk_period(f, b))
        return {"op": "clip", "freq": f, "from": a, "until": b}
    if op in ("overlay", "underlay"):
        getattr(D, op)(mk_db(other_spec))
        return {"op": op, "other": "other"}
    if op == "prepend":
        e = w.base[f] + rng.randint(-2, 6)
        D.prepend(mk_db(other_spec), sc.mk_period(f, e))
        return {"op": "prepend", "other": "other", "end": [f, e]}
    if op.startswith("merge"):
        st = op.split("-")[1]
        D.merge(mk_db(other_spec), st)
        return {"op": "merge", "other": "other", "strategy": st}
    l = rng.sample(keys, min(len(keys), rng.randint(1, 2))) if keys else []
    if op == "rename":
        D.rename(list(l), lambda nm: "r_" + nm)
        return {"op": "rename", "names": l, "targets": "lambda n: 'r_' + n"}
    if op == "remove":
        D.remove(list(l))
        return {"op": "remove", "names": l}
    D.keep(list(l))
    return {"op": "keep", "names": l}


def _f_merge_reference(strategy, target, others):
    """Dictionary semantics of merge on observed items: ('ok', dict) | ('raises', None) | None (not decided here)."""
    cur = dict(target)
    dup = False
    for o in others:
        for k, v in o:
            if k not in cur:
                cur[k] = v
            else:
                dup = True
                if strategy == "replace":
                    cur[k] = v
                elif strategy in ("stack", "hstack"):
                    return None
    if strategy in ("error", "critical") and dup:
        return ("raises", None)
    return ("ok", cur)


def _falsify_round4(ctx, rng, add, info, fails):
    import irispie as ir
    path = str(ctx.work / "falsify4.csv")

    def quiet(fn, *a, **k):
        with warnings.catch_warnings():
            warnings.simplefilter("ignore")
            return fn(*a, **k)

    # 4. sessions: a copy (any selection / renaming) is a databox of its own -- operations applied later to the copy
    #    leave the source untouched, and operations applied later to the source leave the copy untouched
    n = ctx.scale(150, 3000)
    info["session_checks"] = 0
    for it in range(n):
        w = World(rng, nfreq=2)
        sa, sb = w.databox(0.6), w.databox(0.6)
        if not sa:
            continue
        A = mk_db(sa)
        sel, tgt, desc, names = _f_selection(rng, list(A.keys()))
        selkind = "all-names" if desc["source_names"] == "None" and desc["target_names"] == "None" else "selection"
        inp = {"self": sa, "other": sb, "copy": desc, "later": []}
        try:
            C = quiet(A.copy, sel, tgt)
        except Exception as e:  # noqa
            add(f"session:copy:{selkind}:raises", f"Databox.copy raises {type(e).__name__}: {e}"[:200], inp, repr(e)[:200])
            continue
        a0, c0 = dict(observe_db(A)), dict(observe_db(C))
        want_c = {t_: a0[s_] for t_, s_ in names.items()}
        if not _obs_equal_db(c0, want_c):
            add(f"session:copy:{selkind}:result", "Databox.copy does not return exactly the selected items under the target names",
                inp, _diff_names(c0, want_c), "the selected items under their target names")
            continue
        side = rng.choice(["copy", "copy", "source"])
        D, keep_obj, keep_obs, who = (C, A, a0, "source") if side == "copy" else (A, C, c0, "copy")
        bad = None
        for _ in range(rng.randint(1, 3)):
            try:
                inp["later"].append(dict(quiet(_f_later_op, rng, w, D, sb), on=side))
            except Exception:  # noqa   (incompatible variants / frequencies: the operation itself is checked elsewhere)
                break
            info["session_checks"] += 1
            now = dict(observe_db(keep_obj))
            if not _obs_equal_db(now, keep_obs):
                bad = _diff_names(now, keep_obs)
                break
        if bad is not None:
            last = inp["later"][-1]["op"]
            add(f"session:copy:{selkind}:{who}-changed-by-later-operation",
                f"an in-place operation ({last}) applied to the {side} of Databox.copy(...) changed the {who} databox",
                inp, bad, f"the {who} databox is untouched by operations on the other databox",
                "C = A.copy(source_names, target_names); <later operations on one of them>; compare the other one")
        if len(fails) > 12:
            return

    # 5. merge of several databoxes in one call: a key may first appear in an earlier merged databox and again in a
    #    later one; every strategy; Databox.merge and Databox.by_merging
    n = ctx.scale(200, 4000)
    info["merge_several_checks"] = 0
    for it in range(n):
        w = World(rng, nfreq=rng.choice([1, 1, 2]))
        nb = rng.choice([2, 2, 3, 4])
        specs = [w.databox(rng.choice([0.3, 0.5])) for _ in range(nb)]
        if rng.random() < 0.5:          # make sure a name is shared by two merged databoxes and absent from the target
            i, j = sorted(rng.sample(range(nb), 2))
            nm = rng.choice(NAME_POOL)
            kind = rng.choice(["ser", "ser", "scal", "list"])
            def _it():
                if kind == "ser":
                    f_ = w.freqs[0]
                    return rand_series(rng, f_, rng.choice([1, 2]), w.base[f_] + rng.randint(-2, 3))
                return rand_scalar(rng) if kind == "scal" else rand_list(rng)
            for q in (i, j):
                specs[q] = [[k_, v_] for k_, v_ in specs[q] if k_ != nm] + [[nm, _it()]]
        by = rng.random() < 0.4
        st = [] if by else w.databox(rng.choice([0.0, 0.2, 0.5]))
        if rng.random() < 0.5:
            shared = {k_ for sp in specs for k_, _ in sp}
            st = [[k_, v_] for k_, v_ in st if k_ not in shared or rng.random() < 0.3]
        strategy = rng.choice(["stack", "stack", "hstack", "replace", "discard", "silent", "warning", "error", "critical"])
        inp = {"self": st, "others": specs, "strategy": strategy, "call": "Databox.by_merging" if by else "self.merge"}
        key = "merge:several-databoxes:" + ("stack" if strategy == "hstack" else strategy)
        repro = ("Databox.by_merging([b1, b2, ...], strategy)" if by else "self.merge([b1, b2, ...], strategy)")
        info["merge_several_checks"] += 1

        def one_call():
            if by:
                return ir.Databox.by_merging([mk_db(sp) for sp in specs], strategy)
            T = mk_db(st)
            T.merge([mk_db(sp) for sp in specs], strategy)
            return T

        def one_by_one():
            T = mk_db(st)
            for sp in specs:
                T.merge(mk_db(sp), strategy)
            return T
        try:
            got = ("ok", dict(observe_db(quiet(one_call))))
        except Exception as e:  # noqa
            got = ("raises", f"{type(e).__name__}: {e}"[:160])
        ref = _f_merge_reference(strategy, observe_db(mk_db(st)), [observe_db(mk_db(sp)) for sp in specs])
        if ref is not None:
            if ref[0] != got[0] or (ref[0] == "ok" and not _obs_equal_db(got[1], ref[1])):
                add(key, f"merging several databoxes in one call with strategy {strategy!r} does not apply the dictionary "
                         "semantics of the strategy to the names that occur more than once",
                    inp, got[1] if got[0] == "raises" else ("no error" if ref[0] == "raises" else _diff_names(got[1], ref[1])),
                    "raises (duplicate names)" if ref[0] == "raises" else
                    "new names added, duplicate names resolved by the strategy in the order of the databoxes", repro)
            continue
        # stack: the series / list semantics are those of merging the databoxes one after the other
        try:
            seq = ("ok", dict(observe_db(quiet(one_by_one))))
        except Exception as e:  # noqa
            seq = ("raises", f"{type(e).__name__}: {e}"[:160])
        if seq[0] != got[0] or (seq[0] == "ok" and not _obs_equal_db(got[1], seq[1])):
            add(key, "merging several databoxes in one call (stack) differs from stacking them one after the other: a name "
                     "that occurs in two of the merged databoxes is not stacked",
                inp, got[1] if got[0] == "raises" else ("no error" if seq[0] == "raises" else _diff_names(got[1], seq[1])),
                seq[1] if seq[0] == "raises" else "the variants / list elements of all occurrences, in the order of the databoxes",
                repro)
        if len(fails) > 12:
            return

    # 6. CSV round trip of databoxes that contain empty series (no observations, unknown frequency), next to dated
    #    series of any frequency or alone: names, variant counts and descriptions come back, the series stay empty
    n = ctx.scale(120, 2500)
    info["csv_empty_series_roundtrips"] = 0
    for it in range(n):
        only = rng.random() < 0.25
        spec = [] if only else _plain_db(rng, nfreq=rng.choice([1, 2, 3]))
        taken = {k_ for k_, _ in spec}
        for nm in rng.sample([x for x in NAME_POOL if x not in taken and not x.startswith("_")], rng.randint(1, 3)):
            e = empty_series(rng)
            e["desc"] = rng.choice(["", "Some description", "with, comma"])
            spec.insert(rng.randint(0, len(spec)), [nm, e])
        inp = {"db": spec, "delimiter": rng.choice([",", ",", ";"]), "round": rng.choice([12, None]),
               "description_row": rng.random() < 0.6, "nan_str": rng.choice(["", "NaN"]),
               "names": None}
        if rng.random() < 0.25:
            inp["names"] = [k_ for k_, _ in spec if rng.random() < 0.7] or [spec[0][0]]
        shape = "only-empty-series" if all(it_["start"] is None for k_, it_ in spec
                                           if inp["names"] is None or k_ in inp["names"]) else "with-empty-series"
        kw = {} if inp["names"] is None else {"names": list(inp["names"])}
        repro = (f"db.to_csv_file(f, delimiter={inp['delimiter']!r}, round={inp['round']}, description_row="
                 f"{inp['description_row']}, nan_str={inp['nan_str']!r}{', names=names' if kw else ''}); "
                 f"Databox.from_csv_file(f, delimiter={inp['delimiter']!r}, description_row={inp['description_row']})")
        info["csv_empty_series_roundtrips"] += 1
        try:
            db = mk_db(spec)
            quiet(db.to_csv_file, path, delimiter=inp["delimiter"], round=inp["round"],
                  description_row=inp["description_row"], nan_str=inp["nan_str"], **kw)
            back = quiet(ir.Databox.from_csv_file, path, delimiter=inp["delimiter"], description_row=inp["description_row"])
        except Exception as e:  # noqa
            add(f"csv:roundtrip-raises:{shape}", f"CSV round trip of a databox with empty series raises {type(e).__name__}: {e}"[:200],
                inp, f"{type(e).__name__}: {e}"[:200], "the databox read back", repro)
            continue
        want_names = sorted(k_ for k_ in db.keys() if inp["names"] is None or k_ in inp["names"])
        if sorted(back.keys()) != want_names:
            add(f"csv:names:{shape}", "names differ after the CSV round trip of a databox with empty series", inp,
                sorted(back.keys()), want_names, repro)
            continue
        for nm in want_names:
            x, y = db[nm], back[nm]
            want = x.data if inp["round"] is None else np.round(x.data, inp["round"])
            if y.frequency != x.frequency or y.start != x.start or y.data.shape != x.data.shape:
                add(f"csv:span:{shape}", f"frequency/span/variants of {nm!r} differ after the CSV round trip", inp,
                    [str(y.frequency), str(y.start), list(y.data.shape)], [str(x.frequency), str(x.start), list(x.data.shape)], repro)
            elif not _same_values(y.data, want):
                add(f"csv:values:{shape}", f"values of {nm!r} differ after the CSV round trip", inp, y.data.tolist(), want.tolist(), repro)
            elif inp["description_row"] and y.get_description() != x.get_description():
                add(f"csv:description:{shape}", f"description of {nm!r} differs after the CSV round trip", inp,
                    y.get_description(), x.get_description(), repro)
        if len(fails) > 12:
            return



# ---------------------------------------------------------------------- round 5: exports on selected spans

_SPAN_KINDS = ["default", "contiguous", "contiguous", "stepped", "stepped", "descending", "descending-stepped",
               "hand-picked", "hand-picked", "hand-picked-unordered"]


def _f_selected_periods(rng, f, lo, hi):
    """(kind, serials, how the argument is passed) for one frequency whose data lie in lo..hi: a span that is not
    necessarily a run of consecutive increasing periods (no period twice: a sheet with a repeated date is not the
    image of a databox)."""
    kind = rng.choice(_SPAN_KINDS)
    a = lo + rng.randint(-3, 3)
    b = max(a, hi + rng.randint(-3, 3))
    if kind == "default":
        return kind, None, "..."
    if kind == "contiguous":
        return kind, list(range(a, b + 1)), rng.choice(["Span", "tuple"])
    if kind == "stepped":
        step = rng.choice([2, 2, 3, 4, f if f in (2, 4, 12) else 5])
        return kind, list(range(a, b + 1, step)), rng.choice(["Span", "Span", "tuple"])
    if kind == "descending":
        return kind, list(range(b, a - 1, -1)), rng.choice(["Span", "Span", "tuple"])
    if kind == "descending-stepped":
        step = rng.choice([2, 3, 4])
        return kind, list(range(b, a - 1, -step)), rng.choice(["Span", "Span", "tuple"])
    pool = list(range(a, b + 1))
    pick = rng.sample(pool, rng.randint(1, len(pool)))
    if kind == "hand-picked":
        pick.sort()
    return kind, pick, rng.choice(["tuple", "list"])


def _f_span_argument(f, serials, how):
    import irispie as ir
    if serials is None:
        return ...
    ps = [sc.mk_period(f, t) for t in serials]
    if how == "Span" and len(ps) >= 1:
        step = (serials[1] - serials[0]) if len(serials) > 1 else 1
        sp = ir.Span(ps[0], ps[-1], step)
        if [int(p.serial) for p in sp] == list(serials):
            return sp
    return tuple(ps) if how != "list" else list(ps)


def _falsify_round5(ctx, rng, add, info, fails):
    """7. CSV export of a databox on SELECTED spans (span= / frequency_span= with any iterable of periods per
    frequency: Span objects with a step, descending spans, hand-picked periods, spans wider or narrower than the
    data; several frequencies in one sheet): (a) in the file, next to every written date stand the (rounded) values
    the series have AT THAT DATE, and the written dates are exactly the selected periods; (b) the databox read back
    has, for every exported series, the (rounded) original values on the selected periods and no other
    observations."""
    import irispie as ir
    from irispie.dates import Period, Frequency
    path = str(ctx.work / "falsify5.csv")

    def quiet(fn, *a, **k):
        with warnings.catch_warnings():
            warnings.simplefilter("ignore")
            return fn(*a, **k)

    n = ctx.scale(220, 4000)
    info["csv_selected_span_roundtrips"] = 0
    info["csv_selected_span_kinds"] = {}
    info["csv_selected_span_cells"] = 0
    for it in range(n):
        spec = _plain_db(rng, nfreq=rng.choice([1, 1, 2, 3, 4]))
        for _, s_ in spec:                       # longer series: interior periods exist for every step
            if rng.random() < 0.5:
                extra = rng.randint(2, 9)
                s_["rows"] = s_["rows"] + [[float("nan") if rng.random() < 0.15 else rand_value(rng)
                                            for _ in range(s_["nv"])] for _ in range(extra)]
                if all(math.isnan(v) for v in s_["rows"][-1]):
                    s_["rows"][-1][0] = rand_value(rng)
        present = sorted({s_["freq"] for _, s_ in spec})
        lo = {f: min(s_["start"] for _, s_ in spec if s_["freq"] == f) for f in present}
        hi = {f: max(s_["start"] + len(s_["rows"]) - 1 for _, s_ in spec if s_["freq"] == f) for f in present}
        use_span = len(present) == 1 and rng.random() < 0.5 or rng.random() < 0.1
        sel = {}                                   # frequency -> (kind, serials or None, how)
        if use_span:
            f = rng.choice(present)
            k_ = _f_selected_periods(rng, f, lo[f], hi[f])
            while k_[1] is None or not k_[1]:
                k_ = _f_selected_periods(rng, f, lo[f], hi[f])
            sel[f] = k_
        else:
            fl = [f for f in present if rng.random() < 0.85] or [present[0]]
            rng.shuffle(fl)
            for f in fl:
                k_ = _f_selected_periods(rng, f, lo[f], hi[f])
                if k_[1] is not None and not k_[1]:
                    k_ = ("default", None, "...")
                sel[f] = k_
        rnd = rng.choice([12, 12, None, 3])
        inp = {"db": spec, "argument": "span" if use_span else "frequency_span",
               "selected": {str(f): {"kind": k, "periods": ps, "passed_as": how} for f, (k, ps, how) in sel.items()},
               "delimiter": rng.choice([",", ",", ";"]), "round": rnd, "description_row": rng.random() < 0.4,
               "nan_str": rng.choice(["", "NaN", "NA"]), "names": None}
        if rng.random() < 0.2:
            inp["names"] = [k_ for k_, _ in spec if rng.random() < 0.7] or [spec[0][0]]
        kw = {} if inp["names"] is None else {"names": list(inp["names"])}
        if use_span:
            f0 = next(iter(sel))
            kw["span"] = _f_span_argument(f0, sel[f0][1], sel[f0][2])
        else:
            kw["frequency_span"] = {Frequency(f): _f_span_argument(f, ps, how) for f, (k, ps, how) in sel.items()}
        repro = (f"db.to_csv_file(f, {inp['argument']}=<selected>, delimiter={inp['delimiter']!r}, round={rnd}, "
                 f"description_row={inp['description_row']}, nan_str={inp['nan_str']!r}{', names=names' if inp['names'] else ''}); "
                 f"Databox.from_csv_file(f, delimiter={inp['delimiter']!r}, description_row={inp['description_row']})")
        info["csv_selected_span_roundtrips"] += 1
        for f, (k, ps, how) in sel.items():
            _bump(info["csv_selected_span_kinds"], k)
        worst = lambda: next((k for k in ("hand-picked-unordered", "descending-stepped", "descending", "hand-picked", "stepped",
                                          "contiguous", "default") if any(v[0] == k for v in sel.values())), "default")
        try:
            db = mk_db(spec)
            quiet(db.to_csv_file, path, delimiter=inp["delimiter"], round=rnd, description_row=inp["description_row"],
                  nan_str=inp["nan_str"], **kw)
            grid = read_grid(path, inp["delimiter"])
            back = quiet(ir.Databox.from_csv_file, path, delimiter=inp["delimiter"], description_row=inp["description_row"])
        except Exception as e:  # noqa
            add(f"csv:selected-span:roundtrip-raises:{worst()}",
                f"CSV round trip on a selected span raises {type(e).__name__}: {e}"[:200], inp,
                f"{type(e).__name__}: {e}"[:200], "the sheet and the databox read back", repro)
            continue
        exported = {nm: s_ for nm, s_ in spec if s_["freq"] in sel and (inp["names"] is None or nm in inp["names"])}
        periods_of = {}
        for f, (k, ps, how) in sel.items():
            if ps is None:
                members = [s_ for s_ in exported.values() if s_["freq"] == f]
                ps = (list(range(min(s_["start"] for s_ in members), max(s_["start"] + len(s_["rows"]) for s_ in members)))
                      if members else [])
            periods_of[f] = list(ps)

        def orig_row(s_, t):
            i = t - s_["start"]
            row = s_["rows"][i] if 0 <= i < len(s_["rows"]) else [float("nan")] * s_["nv"]
            return [float(x) if (rnd is None or x != x) else float(np.round(np.float64(x), rnd)) for x in row]

        # (a) the sheet: block by block, row by row
        nh = 1 + int(inp["description_row"])
        header = grid[0] if grid else []
        marks = [c for c, x in enumerate(header) if x.startswith("__")]
        seen_freqs = set()
        bad = False
        for c in marks:
            f = {"__" + m.name.lower() + "__": int(m) for m in Frequency}.get(header[c])
            if f is None or f not in sel:
                continue
            seen_freqs.add(f)
            kind = sel[f][0]
            cols = []                                  # (name, [column indices])
            j = c + 1
            while j < len(header) and header[j] != "" and not header[j].startswith("__"):
                if header[j] == "*" and cols:
                    cols[-1][1].append(j)
                else:
                    cols.append((header[j], [j]))
                j += 1
            dates = [r[c] for r in grid[nh:] if c < len(r) and r[c] != ""]
            want_dates = [str(sc.mk_period(f, t)) for t in periods_of[f]]
            if dates != want_dates:
                add(f"csv:selected-span:dates:{worst()}", f"the dates written for frequency {f} are not the selected periods",
                    inp, dates, want_dates, repro)
                bad = True
                continue
            for r, t in zip([r for r in grid[nh:] if c < len(r) and r[c] != ""], periods_of[f]):
                for nm, cc in cols:
                    if nm not in exported:
                        continue
                    info["csv_selected_span_cells"] += len(cc)
                    got = [float("nan") if r[x] == inp["nan_str"] else _tofloat(r[x]) for x in cc]
                    want = orig_row(exported[nm], t)
                    if len(got) != len(want) or not _same_values(got, want):
                        add(f"csv:selected-span:cell-values:{kind}",
                            f"in the sheet, the values of {nm!r} next to the date {r[c]} are not its values at that period",
                            inp, {"date": r[c], "name": nm, "written": got}, {"date": r[c], "name": nm, "values": want}, repro)
                        bad = True
                        break
                if bad:
                    break
        missing_blocks = sorted(f for f in sel if f not in seen_freqs and any(s_["freq"] == f for s_ in exported.values()))
        if missing_blocks and not bad:
            add(f"csv:selected-span:block-missing:{worst()}", "a selected frequency with series has no block in the sheet", inp,
                sorted(seen_freqs), sorted(f for f in sel if any(s_["freq"] == f for s_ in exported.values())), repro)
            bad = True
        if bad:
            if len(fails) > 12:
                return
            continue
        # (b) the databox read back
        if sorted(back.keys()) != sorted(exported):
            add(f"csv:selected-span:names:{worst()}", "names differ after the CSV round trip on a selected span", inp,
                sorted(back.keys()), sorted(exported), repro)
            continue
        for nm, s_ in exported.items():
            f = s_["freq"]
            kind = sel[f][0]
            y = back[nm]
            ps = periods_of[f]
            want = {t: orig_row(s_, t) for t in ps}
            obs = [t for t in ps if not all(v != v for v in want[t])]
            if y.num_variants != s_["nv"]:
                add(f"csv:selected-span:variants:{kind}", f"number of variants of {nm!r} differs after the CSV round trip", inp,
                    y.num_variants, s_["nv"], repro)
                break
            if not obs:
                if y.start is not None and not np.all(np.isnan(y.data)):
                    add(f"csv:selected-span:values:{kind}", f"{nm!r} has no observation on the selected periods but comes back with some",
                        inp, y.data.tolist(), "no observations", repro)
                    break
                continue
            if int(y.frequency) != f or int(y.start.serial) != min(obs) or int(y.end.serial) != max(obs):
                add(f"csv:selected-span:span:{kind}", f"frequency/span of {nm!r} after the CSV round trip is not that of its "
                    "observations on the selected periods", inp,
                    [int(y.frequency), int(y.start.serial), int(y.end.serial)], [f, min(obs), max(obs)], repro)
                break
            got_rows = {t: y.data[t - int(y.start.serial)].tolist() for t in range(min(obs), max(obs) + 1)}
            wrong = [t for t in got_rows
                     if not _same_values(got_rows[t], want[t] if t in want else [float("nan")] * s_["nv"])]
            if wrong:
                t = wrong[0]
                add(f"csv:selected-span:values:{kind}",
                    f"value of {nm!r} at {sc.mk_period(f, t)} differs after the CSV round trip on the selected periods "
                    "(original value on a selected period, missing on the others)", inp,
                    {"period": str(sc.mk_period(f, t)), "read_back": got_rows[t]},
                    {"period": str(sc.mk_period(f, t)), "original": want.get(t, "missing (period not selected)")}, repro)
                break
            if inp["description_row"] and y.get_description() != s_["desc"]:
                add(f"csv:selected-span:description:{kind}", f"description of {nm!r} differs after the CSV round trip", inp,
                    y.get_description(), s_["desc"], repro)
                break
        if len(fails) > 12:
            return


def _spec_of(spec, name):
    for n, it in spec:
        if n == name:
            return it
    raise KeyError(name)


def _obs_item_equal(a, b) -> bool:
    if a["k"] != b["k"]:
        return False
    if a["k"] == "ser":
        return a["desc"] == b["desc"] and sc.obs_equal(a, b)
    if a["k"] == "scal":
        return sc.floats_equal(a["v"], b["v"])
    if a["k"] == "list":
        return len(a["l"]) == len(b["l"]) and all(_obs_item_equal(x, y) for x, y in zip(a["l"], b["l"]))
    return a == b


def _obs_equal_db(a: dict, b: dict) -> bool:
    return set(a) == set(b) and all(_obs_item_equal(a[k], b[k]) for k in a)


def _diff_names(a: dict, b: dict):
    return {"only_observed": sorted(set(a) - set(b)), "only_required": sorted(set(b) - set(a)),
            "different": sorted(k for k in set(a) & set(b) if not _obs_item_equal(a[k], b[k]))}


def replay(ctx, failure: dict):
    fs, _ = falsify(ctx, {})
    for f in fs:
        if f.key == failure["key"]:
            return f
    return None
