"""
Shared machinery of the /verif checks.

A property check (harness/Cxx.py) provides

    ID = "Cxx"
    PROPS = "props/Cxx.v"                 # file that restates the theorems + Print Assumptions
    GENERATED = ["gen/Foo.v", ...]        # files its translator writes (may be empty)
    ALLOWED_AXIOMS = {...}                # names allowed to appear under Print Assumptions
    def translate(ctx): ...               # regenerate coq/gen/*.v from /repo/src; raise TranslatorError (fail closed)
    def correspondence(ctx): ...          # run model and implementation on the same inputs -> CorrResult
    def falsify(ctx, hints): ...          # property stated directly on the public API -> list[Failure]
    def known_replays(ctx): ...           # optional: replays the witnesses of known findings -> list[Failure]

and vf.driver.run_check drives the pipeline described in DESIGN.md 1.5/1.6.
"""
from __future__ import annotations

import dataclasses
import hashlib
import json
import os
import random
import re
import shutil
import subprocess
import sys
import time
from pathlib import Path

VERIF = Path(__file__).resolve().parent.parent
REPO = Path(os.environ.get("VERIF_REPO", "/repo"))
SRC = REPO / "src"
COQ = VERIF / "coq"
WORK = VERIF / ".work"
EVIDENCE = VERIF / "evidence"
REPLAYS = VERIF / "replays"
GUARD = "IRISPIE_VERIF"
NCPU = os.cpu_count() or 4

COQ_TIMEOUT_BUILD = 1500       # seconds, whole make
COQ_TIMEOUT_FILE = 600         # seconds, one cases file

FORBIDDEN = re.compile(
    r"\b(Admitted|admit|Axiom|Axioms|Parameter|Parameters|Conjecture|Conjectures|Abort All)\b"
    r"|Unset\s+Guard|bypass_check|type-in-type|impredicative-set|Admit\s+Obligations|Unset\s+Positivity|Unset\s+Universe"
)


class TranslatorError(Exception):
    """The source fragment is outside the subset the translator accepts (fail closed)."""


@dataclasses.dataclass
class Failure:
    """A concrete input on which the implementation violates the property."""
    key: str                      # classification used to match known findings
    what: str                     # one line
    input: object                 # JSON-able
    observed: object = None
    required: object = None
    repro: str = ""               # python one-liner / snippet


@dataclasses.dataclass
class Disagreement:
    """Model and implementation differ on an input (not by itself a violation)."""
    where: str
    input: object
    model: object = None
    impl: object = None


@dataclasses.dataclass
class CorrResult:
    evaluations: int = 0
    distinct_nontrivial: int = 0
    rule: str = ""
    samples: list = dataclasses.field(default_factory=list)
    distribution: dict = dataclasses.field(default_factory=dict)
    disagreements: list = dataclasses.field(default_factory=list)
    shards: int = 0
    notes: list = dataclasses.field(default_factory=list)


class Ctx:
    def __init__(self, pid: str, tier: str, seed: int):
        self.pid = pid
        self.tier = tier
        self.seed = seed
        self.rng = random.Random(f"{pid}:{seed}")
        self.work = WORK / pid
        self.t0 = time.time()
        self.log_lines: list[str] = []

    def log(self, *a):
        s = " ".join(str(x) for x in a)
        self.log_lines.append(s)
        print(f"[{self.pid}] {s}", flush=True)

    @property
    def thorough(self) -> bool:
        return self.tier == "thorough"

    def scale(self, quick: int, thorough: int) -> int:
        return thorough if self.thorough else quick


# --------------------------------------------------------------------------
# implementation side
# --------------------------------------------------------------------------

def impl_env() -> dict:
    env = dict(os.environ)
    env["PYTHONPATH"] = str(SRC)
    env["PYTHONHASHSEED"] = "0"
    env[GUARD] = "1"
    env["PYTHONWARNINGS"] = "ignore"
    env.pop("PYTHONSTARTUP", None)
    return env


def use_repo_in_process():
    """Make `import irispie` resolve to /repo/src in this process."""
    os.environ[GUARD] = "1"
    p = str(SRC)
    if p in sys.path:
        sys.path.remove(p)
    sys.path.insert(0, p)
    import warnings
    warnings.filterwarnings("ignore")


def run_impl_script(script: Path, payload, timeout=1200):
    """Run harness/impl/<script> in a fresh interpreter: JSON in on stdin, JSON out on stdout (last line)."""
    pr = subprocess.run(
        ["/venv/bin/python", "-W", "ignore", str(script)],
        input=json.dumps(payload), capture_output=True, text=True, env=impl_env(), timeout=timeout,
        cwd=str(VERIF),
    )
    if pr.returncode != 0:
        raise RuntimeError(f"impl driver {script.name} failed rc={pr.returncode}: {pr.stderr[-2000:]}")
    for line in reversed(pr.stdout.splitlines()):
        line = line.strip()
        if line.startswith("{") or line.startswith("["):
            return json.loads(line)
    raise RuntimeError(f"impl driver {script.name} printed no JSON: {pr.stdout[-500:]} {pr.stderr[-500:]}")


# --------------------------------------------------------------------------
# Coq side
# --------------------------------------------------------------------------

def coq_files() -> list[str]:
    out = []
    for sub in ("lib", "gen", "model", "proofs", "props"):
        d = COQ / sub
        if d.is_dir():
            out += sorted(str(p.relative_to(COQ)) for p in d.rglob("*.v"))
    return out


COQ_FLAGS = ["-Q", ".", "Verif", "-w", "-notation-overridden,-deprecated-hint-without-locality,-deprecated-instance-without-locality,-ambiguous-paths,-redundant-canonical-projection,-deprecated-syntactic-definition,-future-coercion-class-field,-deprecated"]


def write_coqproject() -> bool:
    """(Re)write coq/_CoqProject and coq/Makefile when the set of files changed."""
    files = coq_files()
    text = "-Q . Verif\n-arg -w -arg " + COQ_FLAGS[3] + "\n" + "\n".join(files) + "\n"
    cp = COQ / "_CoqProject"
    changed = (not cp.exists()) or cp.read_text() != text or not (COQ / "Makefile").exists()
    if changed:
        cp.write_text(text)
        subprocess.run(["coq_makefile", "-f", "_CoqProject", "-o", "Makefile"], cwd=COQ, check=True,
                       capture_output=True)
    return changed


def write_if_changed(path: Path, text: str) -> bool:
    path.parent.mkdir(parents=True, exist_ok=True)
    if path.exists() and path.read_text() == text:
        return False
    path.write_text(text)
    return True


def coq_make(targets: list[str], timeout=COQ_TIMEOUT_BUILD) -> tuple[bool, str]:
    """Full .vo build of the dependency closure of `targets` (paths relative to coq/, .vo)."""
    write_coqproject()
    cmd = ["timeout", str(timeout), "make", f"-j{NCPU}", "--no-print-directory"] + targets
    pr = subprocess.run(cmd, cwd=COQ, capture_output=True, text=True)
    log = pr.stdout + pr.stderr
    return pr.returncode == 0, log


_ERR_RE = re.compile(r'File "\./?([^"]+)", line (\d+), characters (\d+)-(\d+):\s*\n(?:Error|.*\nError)', re.M)


def locate_failure(log: str) -> dict:
    """Name the file and the enclosing Lemma/Theorem of the first Coq error in a make log."""
    m = re.search(r'File "\./?([^"]+)", line (\d+), characters \d+-\d+:\s*\nError:?(.*?)(?:\n\n|\Z)', log, re.S)
    if not m:
        tail = log.strip().splitlines()[-15:]
        return {"file": None, "line": None, "statement": None, "error": "\n".join(tail)}
    f, line, err = m.group(1), int(m.group(2)), m.group(3).strip()
    stmt = None
    try:
        lines = (COQ / f).read_text().splitlines()
        for i in range(min(line, len(lines)) - 1, -1, -1):
            mm = re.match(r"\s*(?:Local\s+|Global\s+|#\[[^\]]*\]\s*)?(Theorem|Lemma|Corollary|Example|Fact|Proposition|Definition|Fixpoint|Instance|Remark|Goal)\s+([A-Za-z0-9_']+)", lines[i])
            if mm:
                stmt = f"{mm.group(1)} {mm.group(2)}"
                break
    except OSError:
        pass
    return {"file": f, "line": line, "statement": stmt, "error": err[:1500]}


def static_gate(files: list[str] | None = None) -> list[str]:
    """Forbidden vernacular anywhere in the development (comments stripped)."""
    bad = []
    for rel in (files or coq_files()):
        txt = (COQ / rel).read_text()
        txt = strip_coq_comments(txt)
        for i, line in enumerate(txt.splitlines(), 1):
            if FORBIDDEN.search(line):
                bad.append(f"{rel}:{i}: {line.strip()[:120]}")
            # Variable/Hypothesis outside a section: checked by sections depth
        bad += _toplevel_variables(rel, txt)
    return bad


def strip_coq_comments(txt: str) -> str:
    out, depth, i, n = [], 0, 0, len(txt)
    in_str = False
    while i < n:
        c = txt[i]
        if depth == 0 and c == '"':
            in_str = not in_str
            out.append(c); i += 1; continue
        if not in_str and txt.startswith("(*", i):
            depth += 1; i += 2; continue
        if not in_str and depth > 0 and txt.startswith("*)", i):
            depth -= 1; i += 2; continue
        if depth == 0:
            out.append(c)
        elif c == "\n":
            out.append(c)
        i += 1
    return "".join(out)


def _toplevel_variables(rel: str, txt: str) -> list[str]:
    bad, depth = [], 0
    for i, line in enumerate(txt.splitlines(), 1):
        s = line.strip()
        if re.match(r"(Section|Module\s+Type)\s+\w+", s):
            depth += 1
        elif re.match(r"End\s+\w+\s*\.", s) and depth > 0:
            depth -= 1
        elif depth == 0 and re.match(r"(Variable|Variables|Hypothesis|Hypotheses|Context)\b", s):
            bad.append(f"{rel}:{i}: {s[:100]} (outside a section)")
    return bad


def print_assumptions(props_rel: str, timeout=600) -> tuple[bool, dict, str]:
    """Compile props file on its own and parse every `Print Assumptions` block.

    Returns (ok, {theorem: [axiom names]}, raw output)."""
    src = (COQ / props_rel).read_text()
    names = re.findall(r"Print\s+Assumptions\s+([A-Za-z0-9_'.]+)\s*\.", strip_coq_comments(src))
    pr = subprocess.run(["timeout", str(timeout), "coqc"] + COQ_FLAGS + [props_rel], cwd=COQ, capture_output=True,
                        text=True)
    out = pr.stdout
    if pr.returncode != 0:
        return False, {}, out + pr.stderr
    # split output into blocks: each block starts with "Closed under the global context" or "Axioms:"
    blocks = re.split(r"(?m)^(?=Closed under the global context|Axioms:|Section Variables:)", out)
    blocks = [b for b in blocks if b.startswith(("Closed", "Axioms:", "Section Variables:"))]
    res = {}
    if len(blocks) != len(names):
        return False, {}, f"expected {len(names)} Print Assumptions blocks, got {len(blocks)}\n" + out
    for nm, b in zip(names, blocks):
        if b.startswith("Closed"):
            res[nm] = []
        else:
            res[nm] = re.findall(r"(?m)^([A-Za-z_][A-Za-z0-9_'.]*)\s*:", b.split("\n", 1)[1] if "\n" in b else "")
    return True, res, out


def theorem_names(props_rel: str) -> list[str]:
    src = strip_coq_comments((COQ / props_rel).read_text())
    return re.findall(r"(?m)^\s*(?:Theorem|Corollary)\s+([A-Za-z0-9_']+)", src)


def run_cases(ctx: Ctx, shards: list[str], prefix="cases", timeout=COQ_TIMEOUT_FILE) -> list[tuple[bool, str]]:
    """Compile generated case files in parallel; returns [(ok, stdout+stderr)] per shard."""
    d = ctx.work
    d.mkdir(parents=True, exist_ok=True)
    procs = []
    results: list = [None] * len(shards)
    names = []
    for k, text in enumerate(shards):
        nm = f"{prefix}_{k}.v"
        (d / nm).write_text(text)
        names.append(nm)
    running: list = []

    def launch(k):
        p = subprocess.Popen(
            ["bash", "-c", f"ulimit -s unlimited 2>/dev/null; exec timeout {timeout} coqc " + " ".join(
                ["-Q", str(COQ), "Verif", "-w", COQ_FLAGS[3]]) + f" {names[k]}"],
            cwd=d, stdout=subprocess.PIPE, stderr=subprocess.STDOUT, text=True)
        running.append((k, p))

    nxt = 0
    while nxt < len(shards) or running:
        while nxt < len(shards) and len(running) < NCPU:
            launch(nxt); nxt += 1
        k, p = running.pop(0)
        out, _ = p.communicate()
        results[k] = (p.returncode == 0, out)
    return results


def parse_eval_lists(out: str) -> list[str]:
    """Return the bodies printed by `Eval vm_compute in ...` / `Compute`: text between '= ' and ': type'."""
    res = []
    for m in re.finditer(r"(?s)^\s*= (.*?)\n\s*: [^\n]*\n", out + "\n", re.M):
        res.append(re.sub(r"\s+", " ", m.group(1)).strip())
    return res


def parse_nat_list(body: str) -> list[int]:
    body = body.strip()
    if body in ("[]", "nil"):
        return []
    return [int(x) for x in re.findall(r"-?\d+", body)]


# --------------------------------------------------------------------------
# literals
# --------------------------------------------------------------------------

def coq_float(x: float) -> str:
    """A PrimFloat literal with exactly the bits of the Python float (NaN canonical)."""
    import math
    if x != x:
        return "nan"
    if math.isinf(x):
        return "infinity" if x > 0 else "neg_infinity"
    if x == 0:
        return "(-0)%float" if math.copysign(1, x) < 0 else "0%float"
    h = x.hex()          # e.g. -0x1.8000000000000p+0
    neg = h.startswith("-")
    h = h.lstrip("-")
    return f"(-{h})%float" if neg else f"{h}%float"


def coq_z(n: int) -> str:
    return f"({n})%Z" if n < 0 else f"{n}%Z"


def coq_list(items, sep="; ") -> str:
    return "[" + sep.join(items) + "]"


def coq_string(s: str) -> str:
    return '"' + s.replace('"', '""') + '"'


def coq_bool(b) -> str:
    return "true" if b else "false"


# --------------------------------------------------------------------------
# evidence / findings / violations
# --------------------------------------------------------------------------

def load_known() -> dict:
    p = VERIF / "known_findings.json"
    if not p.exists():
        return {"findings": [], "fixed": []}
    return json.loads(p.read_text())


def write_replay(pid: str, payload: dict) -> Path:
    d = REPLAYS / pid
    d.mkdir(parents=True, exist_ok=True)
    blob = json.dumps(payload, sort_keys=True, default=str)
    h = hashlib.sha1(blob.encode()).hexdigest()[:12]
    p = d / f"{h}.json"
    p.write_text(json.dumps(payload, indent=1, sort_keys=True, default=str))
    return p


def write_evidence(pid: str, ev: dict):
    # evidence is only ever written from runs against /repo itself; runs against a scratch copy
    # (VERIF_REPO=..., used for mutants and by builders) write to .work/ instead
    d = EVIDENCE if str(REPO) == "/repo" else WORK / "evidence_scratch"
    d.mkdir(parents=True, exist_ok=True)
    (d / f"{pid}.json").write_text(json.dumps(ev, indent=1, default=str))


def clean_work(ctx: Ctx):
    if os.environ.get("VERIF_KEEP_WORK"):
        return
    shutil.rmtree(ctx.work, ignore_errors=True)
