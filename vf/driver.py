"""Pipeline of one property check (DESIGN.md 1.5, 1.6)."""
from __future__ import annotations

import importlib
import json
import os
import sys
import time
import traceback

from . import core
from .core import Ctx, Failure, CorrResult, TranslatorError

TRUSTED_COMMON = [
    "Coq 8.16.1 kernel and its vm_compute bytecode VM (no native_compute)",
    "the fail-closed Python-ast translators under /verif/translator",
    "the correspondence harness (generators, comparison) under /verif/harness",
    "CPython / numpy as executed by the implementation",
]


def _fail_to_dict(f: Failure) -> dict:
    return {"key": f.key, "what": f.what, "input": f.input, "observed": f.observed, "required": f.required,
            "repro": f.repro}


def run_check(pid: str, tier: str, seed: int, replay: str | None = None) -> int:
    sys.path.insert(0, str(core.VERIF))
    core.use_repo_in_process()
    mod = importlib.import_module(f"harness.{pid}")
    ctx = Ctx(pid, tier, seed)
    ctx.work.mkdir(parents=True, exist_ok=True)
    t0 = time.time()

    if replay:
        return _replay(mod, ctx, replay)

    broken: list[dict] = []          # obligations that no longer check
    obligations = 0
    discharged = 0
    assumptions: dict = {}

    # 1. translator --------------------------------------------------------
    gen_names = list(getattr(mod, "GENERATED", []))
    if hasattr(mod, "translate"):
        obligations += 1
        try:
            mod.translate(ctx)
            discharged += 1
        except TranslatorError as e:
            broken.append({"kind": "translator", "name": str(e)[:400]})
            ctx.log("translator failed closed:", e)
        except Exception as e:  # a source file that no longer parses/imports is treated the same way
            broken.append({"kind": "translator", "name": f"{type(e).__name__}: {e}"[:400]})
            ctx.log("translator error:", traceback.format_exc()[-800:])

    # 2. build ---------------------------------------------------------------
    props_rel = mod.PROPS
    thms = core.theorem_names(props_rel)
    obligations += len(thms)
    build_ok, log = core.coq_make([props_rel[:-2] + ".vo"] + list(getattr(mod, "CASE_DEPS", [])))
    if not build_ok:
        loc = core.locate_failure(log)
        broken.append({"kind": "proof", "name": f"{loc['file']}:{loc['line']} {loc['statement']}",
                       "error": loc["error"]})
        ctx.log("Coq build failed at", loc["file"], loc["line"], loc["statement"])
        ctx.log(loc["error"][:600])
    # 3. static gate ---------------------------------------------------------
    gate = core.static_gate()
    if gate:
        broken.append({"kind": "static-gate", "name": "; ".join(gate[:5])})
        ctx.log("static gate:", gate[:5])
    # 4. assumptions ---------------------------------------------------------
    if build_ok:
        ok, assumptions, raw = core.print_assumptions(props_rel)
        if not ok:
            broken.append({"kind": "proof", "name": f"{props_rel} (Print Assumptions run)", "error": raw[-800:]})
        else:
            allowed = set(getattr(mod, "ALLOWED_AXIOMS", set()))
            missing = [t for t in thms if t not in assumptions]
            if missing:
                broken.append({"kind": "proof", "name": f"no Print Assumptions for {missing}"})
            for t in thms:
                ax = assumptions.get(t)
                if ax is None:
                    continue
                extra = [a for a in ax if a.split(".")[-1] not in allowed and a not in allowed]
                if extra:
                    broken.append({"kind": "axioms", "name": f"{t} depends on {extra}"})
                else:
                    discharged += 1

    # 5. correspondence ------------------------------------------------------
    corr = CorrResult()
    if build_ok or getattr(mod, "CORR_WITHOUT_PROOFS", False):
        try:
            corr = mod.correspondence(ctx)
        except Exception as e:
            corr = CorrResult()
            corr.disagreements.append(core.Disagreement("harness", None, None, f"{type(e).__name__}: {e}"))
            ctx.log("correspondence raised:", traceback.format_exc()[-1500:])
        obligations += max(corr.shards, 1)
        if corr.disagreements:
            d0 = corr.disagreements[0]
            broken.append({"kind": "correspondence", "name": d0.where,
                           "first": {"input": d0.input, "model": d0.model, "impl": d0.impl},
                           "count": len(corr.disagreements)})
            ctx.log(f"correspondence: {len(corr.disagreements)} disagreement(s); first at {d0.where}: "
                    f"input={json.dumps(d0.input, default=str)[:300]} model={str(d0.model)[:200]} impl={str(d0.impl)[:200]}")
        else:
            discharged += max(corr.shards, 1)
    else:
        obligations += 1

    # 6. falsifier -----------------------------------------------------------
    failures: list[Failure] = []
    fal_info = {}
    try:
        hints = {"broken": broken, "disagreements": [d.__dict__ for d in corr.disagreements[:20]]}
        res = mod.falsify(ctx, hints)
        if isinstance(res, tuple):
            failures, fal_info = res
        else:
            failures = res
    except Exception as e:
        ctx.log("falsifier raised:", traceback.format_exc()[-1500:])
        broken.append({"kind": "falsifier", "name": f"{type(e).__name__}: {e}"[:300]})

    # 7. verdict -------------------------------------------------------------
    known = core.load_known()
    known_keys = {k["key"]: k for k in known.get("findings", []) if k.get("property") == pid}
    new_failures = [f for f in failures if f.key not in known_keys]
    seen_known = sorted({f.key for f in failures if f.key in known_keys})
    rc = 0
    out_lines = []
    for k in seen_known:
        out_lines.append(f"KNOWN-FINDING: property={pid} {known_keys[k]['what']}")
    violations = 0
    if new_failures:
        f = new_failures[0]
        path = core.write_replay(pid, {
            "property": pid, "seed": seed, "tier": tier, "kind": "failing-input",
            "failure": _fail_to_dict(f), "other_failures": [_fail_to_dict(x) for x in new_failures[1:10]],
            "broken_obligations": broken,
        })
        out_lines.append(f"VIOLATION property={pid} replay={path}")
        violations = len(new_failures)
        rc = 1
    elif broken:
        path = core.write_replay(pid, {
            "property": pid, "seed": seed, "tier": tier, "kind": "broken-obligation",
            "broken_obligations": broken,
            "note": "the named theorem / translator fragment / correspondence no longer checks; "
                    "the falsifier found no failing input on the implementation",
        })
        out_lines.append(f"VIOLATION property={pid} replay={path} no-failing-input-found")
        violations = 1
        rc = 1

    trusted = TRUSTED_COMMON + list(getattr(mod, "TRUSTED", []))
    axioms_used = sorted({a for v in assumptions.values() for a in v})
    ev = {
        "property_id": pid, "tier": tier, "seed": seed, "level": "proof",
        "coverage": {
            "obligations": obligations, "discharged": discharged,
            "checker_cmd": f"cd /verif/coq && make {props_rel[:-2]}.vo && coqc {props_rel} (Print Assumptions); "
                           f"./check {pid} --tier {tier}",
            "trusted_base": trusted + [f"axioms reported by Print Assumptions: {axioms_used or 'none'}"],
            "theorems": {t: assumptions.get(t) for t in thms},
            "generated_from_source": gen_names,
            "evaluations": corr.evaluations, "distinct_nontrivial": corr.distinct_nontrivial,
            "rule": corr.rule, "samples": corr.samples[:5] or ["(no correspondence cases)"],
            "correspondence_shards": corr.shards,
            "input_distribution": corr.distribution,
            "falsifier": fal_info,
            "broken_obligations": broken,
            "known_findings_seen": seen_known,
            "notes": corr.notes,
        },
        "assumptions": list(getattr(mod, "ASSUMPTIONS", [])),
        "wall_s": round(time.time() - t0, 2),
        "violations": violations,
    }
    core.write_evidence(pid, ev)
    core.clean_work(ctx)
    for l in out_lines:
        print(l, flush=True)
    ctx.log(f"done: obligations={obligations} discharged={discharged} corr_evals={corr.evaluations} "
            f"violations={violations} wall={ev['wall_s']}s")
    return rc


def _replay(mod, ctx, path) -> int:
    data = json.load(open(path))
    if data.get("kind") == "failing-input" and hasattr(mod, "replay"):
        f = mod.replay(ctx, data["failure"])
        if f:
            print(f"VIOLATION property={ctx.pid} replay={path}")
            print(json.dumps(_fail_to_dict(f), indent=1, default=str))
            return 1
        print("replay: the recorded input no longer fails")
        return 0
    print(json.dumps(data, indent=1))
    return 0
